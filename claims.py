claim("C02", "Reference-model monitor: at every epoch block and at every launch of every generated world the stored consumer validator set "
      "is compared with an eligibility computation written from the statement (membership soundness, power, key; completeness when no set cap applies).",
      "online reference-model monitor over probed provider state (post-EndBlock / post-BeginBlock)", "2/C02")
claim("C03", "Exact integer threshold oracle over the recorded provider consensus set at every epoch/launch of Top-N consumers, a cause-tracking "
      "shadow of opt-ins, and a decision oracle for every operator-signed MsgOptOut.",
      "online reference-model monitor + shadow state over real signed transactions", "2/C03")
claim("C10", "Phase-graph reachability, initialized<=>spawn-time, spawn-queue consistency and the launch rule (first 200 due, in queue order) are "
      "asserted after BeginBlock and after EndBlock of every provider block of every world; launch artefacts are compared with the records.",
      "online invariant monitor at Begin/EndBlock probes + shadow of issued ids", "2/C10")
claim("C15", "Every provider block: recorded consensus set vs a tie-tolerant top-M predicate over staking state, engine-side fold of returned "
      "updates vs recorded set (never diverge, never exceed M), exact-diff check, staking views (iteration, total bonded, ratio) vs the set.",
      "online invariant monitor + engine-side fold of ValidatorUpdates", "2/C15")
claim("C04", "Closed-form oracles (set size, no excluded eligible validator strictly outranks an included one, power-cap predicates incl. the "
      "unachievable case) over (a) >=60k/1.5M generated vectors driven through the exported functions of the real keeper and (b) every capped "
      "consumer set stored by the provider in the generated worlds.",
      "runtime oracle over generated inputs to the real functions + online monitor of stored sets", "2/C04")
