claim("C02", "Reference-model monitor: at every epoch block and at every launch of every generated world the stored consumer validator set "
      "is compared with an eligibility computation written from the statement (membership soundness, power, key; completeness when no set cap applies).",
      "online reference-model monitor over probed provider state (post-EndBlock / post-BeginBlock)", "2/C02")
claim("C03", "Exact integer threshold oracle over the recorded provider consensus set at every epoch/launch of Top-N consumers, a cause-tracking "
      "shadow of opt-ins, and a decision oracle for every operator-signed MsgOptOut.",
      "online reference-model monitor + shadow state over real signed transactions", "2/C03")
claim("C10", "Phase-graph reachability, initialized<=>spawn-time, spawn-queue consistency and the launch rule (first 200 due, in queue order) are "
      "asserted after BeginBlock and after EndBlock of every provider block of every world; launch artefacts are compared with the records.",
      "online invariant monitor at Begin/EndBlock probes + shadow of issued ids", "2/C10")
claim("C15", "Every provider block: recorded consensus set vs a tie-tolerant top-M predicate over staking state, engine-side fold of returned "
      "updates vs recorded set (never diverge, never exceed M), exact-diff check, staking views (iteration, total bonded, ratio) vs the set.",
      "online invariant monitor + engine-side fold of ValidatorUpdates", "2/C15")
claim("C04", "Closed-form oracles (set size, no excluded eligible validator strictly outranks an included one, power-cap predicates incl. the "
      "unachievable case) over (a) >=60k/1.5M generated vectors driven through the exported functions of the real keeper and (b) every capped "
      "consumer set stored by the provider in the generated worlds.",
      "runtime oracle over generated inputs to the real functions + online monitor of stored sets", "2/C04")
claim("C01", "Reference-model monitor at every block of every live consumer chain (real consumer app booted from the provider's genesis, real IBC relay "
      "with delays, batches and late channel opening): stored and engine-side sets must equal the provider's stored set for the last packet received.",
      "online reference-model monitor over both chains + wire-level fold of VSC packets", "2/C01")
claim("C12", "Logical-clock monitor on both chains: id step per epoch, id->height and height->id maps, ids carried by slash requests, heights resolved by the provider, "
      "error acks for never-issued ids.", "online monitor with shadow clocks over provider and consumer probes", "2/C12")
claim("C08", "Decision-table oracle for every slash packet (honest downtime detected by the consumers' real x/slashing from missed votes, plus hostile packets from a "
      "malicious consumer), boundary-call observation of Slash/Jail/JailUntil, equality of all other validators, slash-ack round trip, consumer outstanding flags.",
      "online decision-table monitor + boundary call observer (decorated keepers) + shadow of owed acknowledgements", "2/C08")
claim("C09", "Provider meter invariants at every BeginBlock, per-packet admit/bounce and deduction, offline window bound over the recorded meter log; consumer-side "
      "send/ack automaton and conservation of queued slash packets.", "online invariant monitor + offline checker over the meter log + trace automaton", "2/C09")
claim("C13", "Store-diff monitor: every key of the provider store changed by the transaction phase, by BeginBlock lifecycle processing and by non-epoch EndBlocks is "
      "attributed to a consumer id and must belong to a consumer the block concerns (ids 0..25+ so that textual-prefix pairs exist).",
      "online store snapshot/diff monitor with a key-layout decoder (+ per-consumer reward-denom rule on BeginBlock credit consumption)", "2/C13, 10.7")
claim("C14", "Authorization-table oracle over a directed matrix of real signed transactions (incl. forged signer fields and governance proposals), tx-level "
      "store diffs for rejected messages, per-validator key attribution for accepted ones, and a standing ownership/Top-N invariant in all worlds.",
      "directed hostile workload + decision-table oracle + store-diff monitor + standing invariant", "2/C14")
claim("C05", "Shadow-registry monitor predicting every assignment outcome and compared with the provider's key index after every block, under a deliberately "
      "small key pool, validator creation with pooled keys, removal and re-creation.", "online reference-model (shadow registry) monitor with per-block equality", "2/C05")
claim("C06", "Shadow table of replaced keys with deadlines; retention before and pruning at the deadline asserted at every block under time steps aimed at the "
      "deadlines; attribution of punishments through old keys via the C08 decision table.", "online reference-model monitor with deadline-targeted virtual time", "2/C06")
claim("C20", "Shadow of (current, pending, due) per consumer compared with stored parameters, queued record and schedule after every block; boundary-call "
      "observation of slash fraction / jail duration actually used for punishments.", "online reference-model monitor + boundary call observer", "2/C20")
claim("C18", "Replica re-execution of recorded byte-exact histories (provider and consumers) on independent application instances in the same and in separate "
      "processes with per-block response digests; Go race detector over concurrent replicas in the thorough tier.",
      "replica replay with response digests (offline log comparison) + Go race detector", "2/C18")
claim("C19", "Fault enumeration at the module boundary: every external-module call made inside launch, deletion, reward allocation and packet sending of a multi-consumer "
      "block is made to fail once (decorated keepers installed from outside the repository), outcomes compared with the fault-free run; plus the never-errors "
      "monitor over all generated worlds.", "fault injection at decorated keeper boundary, exhaustive over the call sites of each examined block + runtime monitor",
      "2/C19", category="fault_enumeration")
claim("C11", "Per-block monitor of every stopped consumer: no updates computed or sent, retained state compared key by key until the removal time, removal exactly in the "
      "first block at/after stop+unbonding, complete deletion of the enumerated state categories, channel closed.",
      "online store-diff monitor with shadow of stop times (virtual-time deadlines) + boundary-call log (no send attempt to a stopped consumer)", "2/C11, 10.7")
claim("C17", "Directed hostile handshake matrix with real proofs (malicious consumer channel ends), honest handshakes, repetition, consumer-side refusals, launches on a "
      "shared connection; standing bijection check of the consumer/client/channel maps after every provider block of every world; which provider set a live chain "
      "adopts is judged per consumer id by the C01 monitor.", "directed hostile workload + standing invariant monitor over the raw store", "2/C17")
claim("C07", "Ground-truth oracle over generated double-vote and light-client-attack evidence (valid objects plus one mutant per operator named in the statement), "
      "boundary-call observation of the slash arguments, whole-validator-set equality for non-signers, store-diff emptiness for rejected evidence.",
      "directed hostile workload with ground-truth oracle + boundary call observer + store-diff monitor", "2/C07")
claim("C16", "Conservation and eligibility monitor over real fee flows: consumer fee splits and IBC transfers (real transfer channel opened by the consumer), provider credits per "
      "consumer, BeginBlock payouts compared with a statement-level model incl. per-validator boundary calls, commission and outstanding-reward deltas, standing credits<=pool, "
      "cross-chain conservation at the end of each world.", "online conservation monitor + reference model + boundary call observer + offline end-of-run balance", "2/C16")
