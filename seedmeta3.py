#!/usr/bin/env python3
"""Writes seeded/<ID>-3/meta.json from the agent's meta, my confirmation log (seeded/_logs/<ID>-3.confirm.log) and my check runs
(seeded/_logs/<ID>-3.eval.log: one '##### r3<ID> <time>' block per evaluation, oldest first)."""
import json, os, re, glob
V = os.path.dirname(os.path.abspath(__file__))
for d in sorted(glob.glob(f'{V}/seeded/C??-3')):
    sid = os.path.basename(d)
    if not os.path.exists(f'{d}/meta.agent.json'):
        continue
    ag = json.load(open(f'{d}/meta.agent.json'))
    conf = open(f'{V}/seeded/_logs/{sid}.confirm.log').read() if os.path.exists(f'{V}/seeded/_logs/{sid}.confirm.log') else ''
    res = re.search(r'RESULT \S+ demo_without_rc=(\d+) demo_with_rc=(\d+) unit_rc=(\d+)', conf)
    r0, r1, r2 = map(int, res.groups()) if res else (None, None, None)
    evals = []  # chronological list of {prop: (violations, [signatures])}
    ev = f'{V}/seeded/_logs/{sid}.eval.log'
    if os.path.exists(ev):
        for blk in open(ev).read().split('#####')[1:]:
            cur, run = None, {}
            for l in blk.splitlines():
                m = re.match(r'(C\d\d) quick: .*violations=(\d+)', l)
                if m:
                    cur = m.group(1)
                    run[cur] = [int(m.group(2)), []]
                elif 'signature:' in l and cur:
                    run[cur][1].append(l.split('signature:')[1].strip())
            evals.append(run)
    first, last = {}, {}
    for run in evals:
        for p, r in run.items():
            first.setdefault(p, r)
            last[p] = r
    caught = {p: r[1] for p, r in sorted(last.items()) if r[0] > 0}
    missed = [p for p, r in sorted(last.items()) if r[0] == 0]
    meta = {
        'property': ag.get('property', sid[:3]), 'round': 3,
        'summary': ag.get('summary'), 'needs_to_manifest': ag.get('needs_to_manifest'), 'files_touched': ag.get('files_touched'),
        'origin': 'written by a fresh sub-agent that saw only the property text (plus one sentence about each of the two earlier changes for this property, to avoid repeats) and a scratch worktree of /repo; nothing from /verif',
        'demo_cmd': ag.get('demo_cmd'),
        'demo_files': sorted(os.path.relpath(os.path.join(dp, f), f'{d}/demo') for dp, _, fs in os.walk(f'{d}/demo') for f in fs),
        'confirmed_by_me': {
            'how': 'confirm_seed.sh: fresh scratch worktree of /repo HEAD under /tmp/mine; demo copied in and run without the change, patch applied, demo run with the change, demo removed, '
                   'go build ./... and the whole pinned suite (go test ./..., judged test by test against the 505 stable tests of BASELINE.json) with the change; worktree removed',
            'demo_without_change_exit': r0, 'demo_with_change_exit': r1, 'pinned_suite_with_change_exit': r2,
            'confirmed': res is not None and r0 == 0 and r1 != 0 and r2 == 0,
        },
        'checks_run_against_it': {
            'how': 'seedeval.sh: patch applied to a scratch worktree, VERIF_REPO=<worktree> ./check <ID> quick (own binary / module file / output dir), worktree removed; logs in seeded/_logs',
            'evaluations': len(evals), 'caught_by': caught, 'not_caught_by': missed,
            'missed_in_first_evaluation_then_check_strengthened': sorted(p for p in caught if first.get(p, [1])[0] == 0),
        },
    }
    if os.path.exists(f'{d}/notes.json'):
        meta['notes'] = json.load(open(f'{d}/notes.json'))
    json.dump(meta, open(f'{d}/meta.json', 'w'), indent=1)
    print(sid, 'confirmed' if meta['confirmed_by_me']['confirmed'] else 'NOT CONFIRMED (yet)', 'caught by', list(caught), 'missed by', missed, 'strengthened', meta['checks_run_against_it']['missed_in_first_evaluation_then_check_strengthened'])
