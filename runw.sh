#!/bin/bash
# usage: runw.sh profile seed idx [tier]  -> builds and runs one world verbosely
export GOFLAGS=-mod=mod GOPROXY=off
cd /verif/harness && go test -c -o /verif/bin/sim.test ./sim/ || exit 1
mkdir -p /verif/out
cd /verif/out && VERIF_PROFILE=$1 VERIF_SEED=$2 VERIF_INDEX=$3 VERIF_TIER=${4:-quick} VERIF_OUT=/verif/out/w.json VERIF_VERBOSE=1 /verif/bin/sim.test -test.run 'TestWorld$' > /verif/out/w.log 2>&1
python3 - <<'P'
import json
r=json.load(open('/verif/out/w.json'))
print('FATAL:',r.get('fatal','')[:3000]); print(r['blocks'], r['steps'], 'wall',r['wall_s'])
for p,s in sorted(r['stats'].items()):
    print(p,'evals',s['evaluations'],'distinct',s['distinct'],dict(sorted(s['events'].items())) if p!='_tx' else '')
for v in (r['violations'] or []): print('VIOL',v['property'],v['signature'],json.dumps(v['details'])[:600],'step',v['step'])
P
