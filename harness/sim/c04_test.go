package sim

import (
	"fmt"
	"math/rand"
	"os"
	"strconv"
	"testing"
	"time"

	tmprotocrypto "github.com/cometbft/cometbft/proto/tendermint/crypto"
	cmttypes "github.com/cometbft/cometbft/types"

	providerkeeper "github.com/cosmos/interchain-security/v7/x/ccv/provider/keeper"
	providertypes "github.com/cosmos/interchain-security/v7/x/ccv/provider/types"
)

// TestC04Vectors drives the exported power-shaping functions of the real keeper (real store, no mocks)
// with generated validator multisets and judges the results with the closed-form predicates of C04.
func TestC04Vectors(t *testing.T) {
	if os.Getenv("VERIF_DIRECTED") == "" {
		t.Skip("directed test; run through ./check")
	}
	start := time.Now()
	seed, _ := strconv.ParseInt(os.Getenv("VERIF_SEED"), 10, 64)
	tier := os.Getenv("VERIF_TIER")
	n := 60_000
	if tier == "thorough" {
		n = 1_500_000
	}
	cfg := smokeCfgForDirected(seed)
	w := NewWorld(t, fmt.Sprintf("c04-vectors-%s-%d", tier, seed), cfg)
	fatal := ""
	func() {
		defer func() {
			if r := recover(); r != nil {
				fatal = fmt.Sprintf("harness panic: %v", r)
			}
		}()
		w.Init(nil)
		r := rand.New(rand.NewSource(seed*7919 + 17))
		pk := w.P.PApp.ProviderKeeper
		ctx, _ := w.P.Ctx().CacheContext()
		// a pool of consensus addresses / keys (powers are what matters)
		type ident struct {
			addr []byte
			pk   tmprotocrypto.PublicKey
		}
		var pool []ident
		for i := 0; i < 220; i++ {
			k := NewConsKey(fmt.Sprintf("c04-%d", i))
			tk, err := cmtPubToProto(k)
			if err != nil {
				panic(err)
			}
			pool = append(pool, ident{addr: k.Addr, pk: tk})
		}
		for it := 0; it < n; it++ {
			size := 1 + r.Intn(8)
			switch r.Intn(10) {
			case 0:
				size = 1 + r.Intn(200)
			case 1, 2:
				size = 1 + r.Intn(30)
			}
			shape := r.Intn(8)
			powers := genPowers(r, size, shape)
			vals := make([]providertypes.ConsensusValidator, size)
			perm := r.Perm(len(pool))
			for i := range vals {
				id := pool[perm[i]]
				pkc := id.pk
				vals[i] = providertypes.ConsensusValidator{ProviderConsAddr: id.addr, Power: powers[i], PublicKey: &pkc}
			}
			p := uint32(1 + r.Intn(100))
			// --- power cap
			in := map[string]int64{}
			for _, v := range vals {
				in[string(v.ProviderConsAddr)] = v.Power
			}
			cp := append([]providertypes.ConsensusValidator(nil), vals...)
			out := providerkeeper.NoMoreThanPercentOfTheSum(cp, p)
			w.Eval("C04")
			w.Event("C04", "power-cap-vectors")
			if len(out) != len(vals) {
				w.Violation("C04", "vector:power-cap:length-changed", map[string]any{"in": powers, "p": p, "out_len": len(out)})
			} else {
				inV, outV := make([]int64, len(out)), make([]int64, len(out))
				ok := true
				seen := map[string]bool{}
				for i, o := range out {
					pw, found := in[string(o.ProviderConsAddr)]
					if !found {
						ok = false
					}
					if seen[string(o.ProviderConsAddr)] {
						w.Violation("C04", "vector:power-cap:validator-twice-in-output", map[string]any{"in": powers, "p": p})
					}
					seen[string(o.ProviderConsAddr)] = true
					inV[i], outV[i] = pw, o.Power
				}
				if !ok {
					w.Violation("C04", "vector:power-cap:unknown-validator-in-output", map[string]any{"in": powers, "p": p})
				} else if msg := checkPowerCap(inV, outV, int64(p)); msg != "" {
					w.Violation("C04", "vector:power-cap:"+msg, map[string]any{"in": inV, "out": outV, "p": p})
				}
				ach := "achievable"
				if s := sumI(inV); maxI(1, s/100*int64(p))*int64(len(inV)) < s && s < (1<<55) {
					ach = "unachievable"
				}
				w.Case("C04", fmt.Sprintf("pcap n=%s p=%s shape=%d %s", bucket(size), bucketP(int(p)), shape, ach))
				if it < 3 {
					w.Sample("C04", map[string]any{"in": inV, "p": p, "out": outV})
				}
			}
			// --- set cap + priority list (real keeper, real store)
			if it%3 == 0 {
				consumerID := "7"
				nprio := r.Intn(4)
				var prio []string
				isPrio := map[string]bool{}
				for i := 0; i < nprio; i++ {
					id := pool[perm[r.Intn(size+3)]] // may be outside the eligible set
					prio = append(prio, sdkCons(id.addr))
					isPrio[string(id.addr)] = true
				}
				pk.UpdatePrioritylist(ctx, consumerID, prio)
				k := uint32(r.Intn(size + 2))
				ps := providertypes.PowerShapingParameters{ValidatorSetCap: k}
				cp2 := append([]providertypes.ConsensusValidator(nil), vals...)
				pr, npr := pk.PartitionBasedOnPriorityList(ctx, consumerID, cp2)
				capped := pk.CapValidatorSet(ctx, ps, append(pr, npr...))
				w.Eval("C04")
				w.Event("C04", "set-cap-vectors")
				inc := map[string]bool{}
				for _, c := range capped {
					inc[string(c.ProviderConsAddr)] = true
				}
				want := size
				if k != 0 && int(k) < size {
					want = int(k)
				}
				if len(capped) != want || len(inc) != len(capped) {
					w.Violation("C04", "vector:set-cap:wrong-size", map[string]any{"powers": powers, "k": k, "got": len(capped), "want": want})
				}
				for _, e := range vals {
					if inc[string(e.ProviderConsAddr)] {
						continue
					}
					for _, i := range vals {
						if !inc[string(i.ProviderConsAddr)] {
							continue
						}
						ep, ip := isPrio[string(e.ProviderConsAddr)], isPrio[string(i.ProviderConsAddr)]
						if (ep && !ip) || (ep == ip && e.Power > i.Power) {
							w.Violation("C04", "vector:set-cap:excluded-outranks-included", map[string]any{"powers": powers, "k": k,
								"excluded_power": e.Power, "excluded_prio": ep, "included_power": i.Power, "included_prio": ip})
						}
					}
				}
				for _, c := range capped {
					if pw, ok := in[string(c.ProviderConsAddr)]; !ok || pw != c.Power {
						w.Violation("C04", "vector:set-cap:changed-or-invented-validator", map[string]any{"powers": powers, "k": k})
					}
				}
				w.Case("C04", fmt.Sprintf("scap n=%s k%sn prio=%d", bucket(size), cmpStr(int(k), size), nprio))
				// Top-N consumers are never capped
				psT := providertypes.PowerShapingParameters{ValidatorSetCap: k, Top_N: 60}
				if len(pk.CapValidatorSet(ctx, psT, vals)) != len(vals) {
					w.Violation("C04", "vector:set-cap:applied-to-topn", map[string]any{"k": k, "n": size})
				}
			}
		}
	}()
	w.Finish(os.Getenv("VERIF_OUT"), start, fatal)
}

func sumI(a []int64) int64 {
	var s int64
	for _, x := range a {
		s += x
	}
	return s
}

func maxI(a, b int64) int64 {
	if a > b {
		return a
	}
	return b
}

func bucketP(p int) string {
	switch {
	case p == 1:
		return "1"
	case p < 10:
		return "2-9"
	case p < 34:
		return "10-33"
	case p < 50:
		return "34-49"
	case p < 100:
		return "50-99"
	}
	return "100"
}

func genPowers(r *rand.Rand, n, shape int) []int64 {
	out := make([]int64, n)
	maxEach := cmttypes.MaxTotalVotingPower / int64(n)
	for i := range out {
		switch shape {
		case 0: // all ones
			out[i] = 1
		case 1: // small
			out[i] = 1 + r.Int63n(10)
		case 2: // ties
			out[i] = []int64{5, 5, 5, 7, 100}[r.Intn(5)]
		case 3: // geometric
			out[i] = int64(1) << uint(r.Intn(40))
		case 4: // one whale
			out[i] = 1 + r.Int63n(100)
			if i == 0 {
				out[i] = 1_000_000_000 + r.Int63n(1_000_000)
			}
		case 5: // near 2^53
			out[i] = (int64(1) << 53) - r.Int63n(1000)
			if out[i] > maxEach {
				out[i] = maxEach - r.Int63n(1000)
			}
		case 6: // near MaxTotalVotingPower/n
			out[i] = maxEach - r.Int63n(1+maxEach/1000)
		default:
			out[i] = 1 + r.Int63n(1_000_000)
		}
		if out[i] < 1 {
			out[i] = 1
		}
	}
	return out
}
