package sim

import (
	"fmt"
	"time"

	"cosmossdk.io/math"

	sdk "github.com/cosmos/cosmos-sdk/types"
	authtypes "github.com/cosmos/cosmos-sdk/x/auth/types"
	banktypes "github.com/cosmos/cosmos-sdk/x/bank/types"

	transfertypes "github.com/cosmos/ibc-go/v10/modules/apps/transfer/types"
	clienttypes "github.com/cosmos/ibc-go/v10/modules/core/02-client/types"
	channeltypes "github.com/cosmos/ibc-go/v10/modules/core/04-channel/types"
	host "github.com/cosmos/ibc-go/v10/modules/core/24-host"

	providertypes "github.com/cosmos/interchain-security/v7/x/ccv/provider/types"
	ccv "github.com/cosmos/interchain-security/v7/x/ccv/types"
)

// CompleteTransferChannel finishes the handshake of the reward transfer channel the consumer initiated when the CCV channel opened.
func (l *Link) CompleteTransferChannel() error {
	w := l.W
	p, c := w.P, l.C
	consChan := c.CApp.ConsumerKeeper.GetDistributionTransmissionChannel(c.Ctx())
	if consChan == "" {
		return fmt.Errorf("consumer has no transfer channel in INIT")
	}
	w.Tick()
	w.Produce(c, nil, nil)
	o := w.stepOn(p, l.ProvClient, c, func(signer string) []sdk.Msg {
		proof, ph := proofAt(c, host.ChannelKey("transfer", consChan))
		return []sdk.Msg{channeltypes.NewMsgChannelOpenTry("transfer", "ics20-1", channeltypes.UNORDERED, []string{l.ProvConn}, "transfer", consChan, "ics20-1", proof, ph, signer)}
	})
	if !o.OK() {
		return fmt.Errorf("transfer try: %s", logOf(o))
	}
	provChan := eventAttr(o.Result.Events, channeltypes.EventTypeChannelOpenTry, channeltypes.AttributeKeyChannelID)
	w.Tick()
	w.Produce(p, nil, nil)
	o = w.stepOn(c, l.ConsClient, p, func(signer string) []sdk.Msg {
		proof, ph := proofAt(p, host.ChannelKey("transfer", provChan))
		return []sdk.Msg{channeltypes.NewMsgChannelOpenAck("transfer", consChan, provChan, "ics20-1", proof, ph, signer)}
	})
	if !o.OK() {
		return fmt.Errorf("transfer ack: %s", logOf(o))
	}
	w.Tick()
	w.Produce(c, nil, nil)
	o = w.stepOn(p, l.ProvClient, c, func(signer string) []sdk.Msg {
		proof, ph := proofAt(c, host.ChannelKey("transfer", consChan))
		return []sdk.Msg{channeltypes.NewMsgChannelOpenConfirm("transfer", provChan, proof, ph, signer)}
	})
	if !o.OK() {
		return fmt.Errorf("transfer confirm: %s", logOf(o))
	}
	l.XferCons, l.XferProv = consChan, provChan
	return nil
}

// ProviderDenom is the denom under which a consumer-native denom arrives on the provider over this link's transfer channel.
func (l *Link) ProviderDenom(base string) string {
	return ccv.ParseDenomTrace(ccv.GetPrefixedDenom("transfer", l.XferProv, base)).IBCDenom()
}

var feeMenu = []int64{0, 1, 2, 3, 7, 97, 1000, 999_983, 1_000_000_007, 1_000_000_000_000_000_000}

// installRewardsHooks: fee-paying traffic on the consumers, reward denoms, registration of the IBC denoms on the provider.
func (w *World) installRewardsHooks() {
	w.consumerTweak = func(id string, g *ccv.ConsumerGenesisState) {
		g.Params.RewardDenoms = []string{"ufee"}
		if len(w.Consumers)%2 == 1 {
			g.Params.RewardDenoms = []string{"ufee", "uother"} // uother is never registered on the provider
		}
	}
	registered := map[string]bool{}
	w.afterHandshake = func(ci *CInfo, l *Link) {
		if err := l.CompleteTransferChannel(); err != nil {
			w.Op("transfer channel for %s failed: %v", ci.ID, err)
			return
		}
		ci.XferOpen = true
		w.Op("transfer channel open for %s: cons=%s prov=%s denom=%s", ci.ID, l.XferCons, l.XferProv, l.ProviderDenom("ufee"))
		denom := l.ProviderDenom("ufee")
		if registered[denom] {
			return
		}
		registered[denom] = true
		if len(registered)%2 == 1 {
			// global registration through governance
			w.propsThisStep = 0
			op := w.withVotes(one("gov-denoms", w.Accts["faucet"], GovProposal(w.Accts["faucet"], &providertypes.MsgChangeRewardDenoms{DenomsToAdd: []string{denom}, Authority: GovAddr()})))
			w.Tick()
			w.ProviderStep(op.Specs, false, nil)
		} else if ci.Owner != nil {
			// per-consumer allowlist by the owner
			msg := &providertypes.MsgUpdateConsumer{Owner: ci.Owner.Addr.String(), ConsumerId: ci.ID, AllowlistedRewardDenoms: &providertypes.AllowlistedRewardDenoms{Denoms: []string{denom}}}
			w.Tick()
			w.ProviderStep([]TxSpec{{Signer: ci.Owner, Msgs: []sdk.Msg{msg}, Tag: "update-consumer:allowlist-denoms"}}, true, nil)
		}
	}
	w.consumerExtra = func(l *Link) ([]TxSpec, *BlockOpts) {
		c := l.C
		if w.Rnd.Intn(3) != 0 {
			return nil, nil
		}
		fee := sdk.NewCoins()
		if a := feeMenu[w.Rnd.Intn(len(feeMenu))]; a > 0 {
			fee = fee.Add(sdk.NewCoin("ufee", math.NewInt(a)))
		}
		if w.Rnd.Intn(3) == 0 {
			if a := feeMenu[w.Rnd.Intn(len(feeMenu))]; a > 0 {
				fee = fee.Add(sdk.NewCoin("uother", math.NewInt(a)))
			}
		}
		if w.Rnd.Intn(5) == 0 {
			fee = fee.Add(sdk.NewCoin(BondDenom, math.NewInt(1+w.Rnd.Int63n(1000))))
		}
		msg := banktypes.NewMsgSend(c.user.Addr, c.relayer.Addr, sdk.NewCoins(sdk.NewCoin(BondDenom, math.OneInt())))
		specs := []TxSpec{{Signer: c.user, Msgs: []sdk.Msg{msg}, Fee: fee, Tag: "fee-tx"}}
		// now and then an ordinary user of the consumer chain sends tokens straight into the provider's rewards pool, with a reward
		// memo naming this consumer, another consumer, no consumer at all, or without a memo
		if l.XferCons != "" && w.Rnd.Intn(9) == 0 {
			memo, kind := "", "none"
			ids := []string{l.CID}
			for _, ol := range w.LiveLinks() {
				if ol != l {
					ids = append(ids, ol.CID)
				}
			}
			switch w.Rnd.Intn(4) {
			case 0:
			case 1:
				memo, _ = ccv.CreateTransferMemo(l.CID, c.ID)
				kind = "own"
			case 2:
				memo, _ = ccv.CreateTransferMemo(ids[len(ids)-1], c.ID)
				kind = "other:" + ids[len(ids)-1]
			default:
				memo, _ = ccv.CreateTransferMemo("999", c.ID)
				kind = "unknown"
			}
			pool := authtypes.NewModuleAddress(providertypes.ConsumerRewardsPool).String()
			amt := 1 + w.Rnd.Int63n(5000)
			denom := "ufee"
			if w.Rnd.Intn(4) == 0 {
				denom = BondDenom
			}
			tm := transfertypes.NewMsgTransfer("transfer", l.XferCons, sdk.NewCoin(denom, math.NewInt(amt)), c.user.Addr.String(), pool,
				clienttypes.ZeroHeight(), uint64(w.Now.Add(2*time.Hour).UnixNano()), memo)
			w.Op("user transfer into the rewards pool from %s: %d%s memo=%s", l.CID, amt, denom, kind)
			specs = append(specs, TxSpec{Signer: c.user, Msgs: []sdk.Msg{tm}, Tag: "user-transfer:" + kind})
		}
		return specs, nil
	}
}
