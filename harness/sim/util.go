package sim

import (
	"time"

	cmtcrypto "github.com/cometbft/cometbft/crypto/encoding"
	tmprotocrypto "github.com/cometbft/cometbft/proto/tendermint/crypto"

	cryptocodec "github.com/cosmos/cosmos-sdk/crypto/codec"
	cryptotypes "github.com/cosmos/cosmos-sdk/crypto/types"
	sdk "github.com/cosmos/cosmos-sdk/types"
)

func cmtPubToProto(k *ConsKey) (tmprotocrypto.PublicKey, error) {
	return cmtcrypto.PubKeyToProto(k.Priv.PubKey())
}

func sdkCons(addr []byte) string { return sdk.ConsAddress(addr).String() }

// smokeCfgForDirected is the small fixed provider used by directed tests that only need a keeper and a store.
func smokeCfgForDirected(seed int64) Config {
	return Config{Seed: seed, Profile: "directed", NumVals: 4, SpareVals: 1, Tokens: []int64{5000000, 3000000, 3999999, 3500000},
		M: 3, MaxValidators: 100, BlocksPerEpoch: 2, Unbonding: 1000 * time.Second, ConsumerUnbonding: 800 * time.Second,
		EpochsToRewards: 1, SlashFraction: "0.05", SlashPeriod: time.Hour, VotingPeriod: 20 * time.Second,
		CcvTimeout: 4 * 7 * 24 * time.Hour, SignedWindow: 10, KeyPoolSize: 8, HandshakeDelayMax: 2}
}

func sdkPubToProto(pk cryptotypes.PubKey) (tmprotocrypto.PublicKey, error) {
	return cryptocodec.ToCmtProtoPublicKey(pk)
}
