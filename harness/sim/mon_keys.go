package sim

import (
	"encoding/hex"
	"encoding/json"
	"fmt"
	"sort"
	"strings"
	"time"

	abci "github.com/cometbft/cometbft/abci/types"
	cmted25519 "github.com/cometbft/cometbft/crypto/ed25519"

	sdk "github.com/cosmos/cosmos-sdk/types"
	stakingtypes "github.com/cosmos/cosmos-sdk/x/staking/types"

	providertypes "github.com/cosmos/interchain-security/v7/x/ccv/provider/types"
	ccv "github.com/cosmos/interchain-security/v7/x/ccv/types"
)

type keyEntry struct {
	val      string // provider cons hex of the owning validator
	current  bool
	deadline time.Time // for replaced keys on launched consumers
	replaced time.Time
}

// monKeys decides C05 (a consumer key never belongs to two validators; assignment outcomes) and
// C06 (replaced keys stay attributable for the unbonding period, then are forgotten) with a shadow registry
// that is compared with the provider's index after every block.
type monKeys struct {
	w *World
	// idx[consumer][consumer cons hex]
	idx map[string]map[string]*keyEntry
	// cur[consumer][provider cons hex] = consumer cons hex of the current assigned key
	cur       map[string]map[string]string
	phaseAt   map[string]phase
	provAddrs map[string]string // provider cons hex -> operator (staking validators at PostBegin)
	unbonding time.Duration
	ready     bool
}

func init() {
	registerMonitor(func(w *World) Monitor {
		return &monKeys{w: w, idx: map[string]map[string]*keyEntry{}, cur: map[string]map[string]string{}}
	})
}

func (m *monKeys) Name() string { return "C05/C06" }

func (m *monKeys) ix(c string) map[string]*keyEntry {
	if m.idx[c] == nil {
		m.idx[c] = map[string]*keyEntry{}
	}
	return m.idx[c]
}

func (m *monKeys) cr(c string) map[string]string {
	if m.cur[c] == nil {
		m.cur[c] = map[string]string{}
	}
	return m.cur[c]
}

func (m *monKeys) PostBegin(ctx sdk.Context) {
	w := m.w
	pk := w.P.PApp.ProviderKeeper
	m.phaseAt = map[string]phase{}
	for _, id := range pk.GetAllConsumerIds(ctx) {
		ph := pk.GetConsumerPhase(ctx, id)
		m.phaseAt[id] = ph
		if ph == phDeleted {
			// removed in this BeginBlock (or earlier): everything about it is forgotten
			delete(m.idx, id)
			delete(m.cur, id)
		}
	}
	m.provAddrs = map[string]string{}
	for _, sv := range w.StakingSnapshot(ctx) {
		m.provAddrs[consHex(sv.ConsAddr)] = sv.Oper
	}
	m.unbonding, _ = w.P.PApp.StakingKeeper.UnbondingTime(ctx)
	m.ready = true
}

func (m *monKeys) PreEnd(ctx sdk.Context)  {}
func (m *monKeys) PostEnd(ctx sdk.Context) {}

func keyAddrFromJSON(s string) (string, bool) {
	var pk struct {
		Type string `json:"@type"`
		Key  []byte `json:"key"`
	}
	if err := json.Unmarshal([]byte(s), &pk); err != nil || len(pk.Key) != cmted25519.PubKeySize {
		return "", false
	}
	return consHex(cmted25519.PubKey(pk.Key).Address()), true
}

func isActivePhase(p phase) bool { return p == phReg || p == phInit || p == phLaunch }

// attempt judges one key-assignment attempt against the shadow and then updates the shadow.
func (m *monKeys) attempt(consumer, valCons, keyJSON string, accepted bool, now time.Time, log string, withOptIn bool) {
	w := m.w
	a, ok := keyAddrFromJSON(keyJSON)
	if !ok {
		return
	}
	ph, known := m.phaseAt[consumer]
	if !known {
		ph = phReg // created earlier in this block
		if w.Phase(consumer) == phUnspec {
			ph = phUnspec
		}
	}
	ix := m.ix(consumer)
	cr := m.cr(consumer)
	_, valExists := m.provAddrs[valCons]
	rel := "fresh"
	expect := true
	switch {
	case !isActivePhase(ph) || !valExists:
		rel, expect = "inactive-consumer-or-unknown-validator", false
	default:
		if oper, isProv := m.provAddrs[a]; isProv {
			if a != valCons {
				rel, expect = "other-validators-provider-key", false
				_ = oper
			} else if _, has := cr[valCons]; !has {
				rel, expect = "own-provider-key-without-assignment", false
			} else {
				rel = "own-provider-key-after-assignment"
			}
		}
		if expect {
			if e, inIdx := ix[a]; inIdx {
				expect = false
				switch {
				case e.val == valCons && e.current:
					rel = "own-current"
				case e.val == valCons:
					rel = "own-old"
				case e.current:
					rel = "other-current"
				default:
					rel = "other-old"
				}
			}
		}
	}
	phs := "prelaunch"
	if ph == phLaunch {
		phs = "launched"
	}
	w.Eval("C05")
	w.Event("C05", "assignment-attempts")
	w.Case("C05", fmt.Sprintf("assign %s %s", rel, phs))
	if expect != accepted {
		w.Violation("C05", "assignment-outcome:"+rel, map[string]any{"consumer": consumer, "validator": w.valNameHex(valCons), "key": w.keyName(hexToBytes(a)), "expected_accept": expect, "accepted": accepted, "phase": ph.String(), "log": log})
	}
	if !accepted {
		w.Event("C05", "assignments-rejected")
		return
	}
	w.Event("C05", "assignments-accepted")
	if old, had := cr[valCons]; had {
		if ph == phLaunch {
			if e := ix[old]; e != nil {
				e.current = false
				e.replaced = now
				e.deadline = now.Add(m.unbonding)
				w.Event("C06", "keys-replaced-on-launched-consumer")
			}
		} else {
			delete(ix, old)
		}
	}
	cr[valCons] = a
	ix[a] = &keyEntry{val: valCons, current: true}
}

func hexToBytes(h string) []byte {
	out, _ := hex.DecodeString(h)
	return out
}

func (m *monKeys) AfterBlock(c *Chain, req *abci.RequestFinalizeBlock, res *abci.ResponseFinalizeBlock, txs []TxOutcome) {
	if !c.IsProvider || !m.ready {
		return
	}
	w := m.w
	pk := w.P.PApp.ProviderKeeper
	ctx := c.Ctx()
	now := req.Time
	// ---- transactions, in order
	for _, o := range txs {
		for _, msg := range o.Spec.Msgs {
			switch t := msg.(type) {
			case *providertypes.MsgAssignConsumerKey:
				if v := w.valByOper(t.ProviderAddr); v != nil && t.Signer == v.Oper.Addr.String() && o.Spec.Signer == v.Oper {
					m.attempt(t.ConsumerId, consHex(v.ConsAddr()), t.ConsumerKey, o.OK(), now, logOf(o), false)
				}
			case *providertypes.MsgOptIn:
				if t.ConsumerKey == "" {
					continue
				}
				if v := w.valByOper(t.ProviderAddr); v != nil && t.Signer == v.Oper.Addr.String() && o.Spec.Signer == v.Oper {
					m.attempt(t.ConsumerId, consHex(v.ConsAddr()), t.ConsumerKey, o.OK(), now, logOf(o), true)
				}
			case *providertypes.MsgCreateConsumer:
				if o.OK() {
					id := eventAttr(o.Result.Events, providertypes.EventTypeCreateConsumer, providertypes.AttributeConsumerId)
					m.phaseAt[id] = phReg
				}
			case *providertypes.MsgRemoveConsumer:
				if o.OK() {
					m.phaseAt[t.ConsumerId] = phStopped
				}
			case *stakingtypes.MsgCreateValidator:
				// a new provider validator cannot be created with a consensus key known on any active consumer
				pkAny := t.Pubkey
				if pkAny == nil {
					continue
				}
				a := ""
				if strings.HasPrefix(o.Spec.Tag, "create-validator:") {
					name := strings.TrimPrefix(o.Spec.Tag, "create-validator:")
					for _, k := range append(w.allProvKeys(), w.KeyPool...) {
						if k.Name == name {
							a = consHex(k.Addr)
						}
					}
				}
				if a == "" {
					continue
				}
				knownOn := ""
				for cid, ix := range m.idx {
					if isActivePhase(m.phaseAt[cid]) {
						if _, ok := ix[a]; ok {
							knownOn = cid
						}
					}
				}
				_, dupProv := m.provAddrs[a]
				w.Eval("C05")
				w.Event("C05", "validator-creations")
				w.Case("C05", fmt.Sprintf("create-validator key-known=%v", knownOn != ""))
				if knownOn != "" && o.OK() {
					w.Violation("C05", "validator-created-with-key-known-on-active-consumer", map[string]any{"consumer": knownOn, "key": w.keyName(hexToBytes(a))})
				}
				if knownOn == "" && !dupProv && !o.OK() && strings.Contains(o.Result.Log, "consensus key") {
					w.Violation("C05", "validator-creation-rejected-for-unknown-key", map[string]any{"key": w.keyName(hexToBytes(a)), "log": o.Result.Log})
				}
				if o.OK() {
					m.provAddrs[a] = t.ValidatorAddress
				}
			}
		}
	}
	// ---- EndBlock effects
	// validators removed from staking lose their current assignment everywhere
	after := map[string]bool{}
	for _, sv := range w.StakingSnapshot(ctx) {
		after[consHex(sv.ConsAddr)] = true
	}
	for pc := range m.provAddrs {
		if !after[pc] {
			w.Event("C05", "validators-removed")
			for cid, cr := range m.cur {
				if a, ok := cr[pc]; ok {
					delete(m.ix(cid), a)
					delete(cr, pc)
				}
			}
			delete(m.provAddrs, pc)
		}
	}
	// pruning of replaced keys whose deadline has passed (consumers with a client, i.e. launched or stopped)
	for cid, ix := range m.idx {
		if _, hasClient := pk.GetConsumerClientId(ctx, cid); !hasClient {
			continue
		}
		for a, e := range ix {
			if !e.current && !e.deadline.IsZero() && !e.deadline.After(now) {
				delete(ix, a)
				w.Event("C06", "replaced-keys-pruned")
				w.Case("C06", "pruned:"+offsetClass(now.Sub(e.deadline)))
			}
		}
	}
	// consumers deleted in this block's BeginBlock were handled in PostBegin
	// ---- compare the shadow with the provider's index, per consumer
	for _, cid := range pk.GetAllConsumerIds(ctx) {
		ph := pk.GetConsumerPhase(ctx, cid)
		cidc := cid
		got := map[string]string{}
		for _, e := range pk.GetAllValidatorsByConsumerAddr(ctx, &cidc) {
			got[consHex(e.ConsumerAddr)] = consHex(e.ProviderAddr)
		}
		want := m.ix(cid)
		if ph == phDeleted {
			if len(got) > 0 {
				w.Violation("C11", "key-assignments-survived-deletion", map[string]any{"consumer": cid, "entries": len(got)})
			}
			continue
		}
		w.Eval("C06")
		for a, e := range want {
			g, ok := got[a]
			if !ok {
				sig := "current-key-not-resolvable"
				prop := "C05"
				if !e.current {
					sig, prop = "replaced-key-forgotten-before-deadline", "C06"
				}
				w.Violation(prop, sig, map[string]any{"consumer": cid, "key": w.keyName(hexToBytes(a)), "validator": w.valNameHex(e.val),
					"replaced_at": e.replaced.String(), "deadline": e.deadline.String(), "time": now.String(), "phase": ph.String()})
				delete(want, a)
				continue
			}
			if g != e.val {
				w.Violation("C05", "key-resolves-to-other-validator", map[string]any{"consumer": cid, "key": w.keyName(hexToBytes(a)), "stored": w.valNameHex(g), "model": w.valNameHex(e.val)})
			}
			if !e.current {
				w.Event("C06", "resolutions-before-deadline")
				w.Case("C06", "retained:"+offsetClass(e.deadline.Sub(now)))
			}
		}
		for a, g := range got {
			if _, ok := want[a]; !ok {
				// an entry the model does not know: either retained past its deadline or invented
				w.Violation("C06", "key-still-known-after-it-should-be-forgotten", map[string]any{"consumer": cid, "key": w.keyName(hexToBytes(a)), "validator": w.valNameHex(g), "time": now.String(), "phase": ph.String()})
				want[a] = &keyEntry{val: g, current: false} // resynchronise
			}
		}
		// injectivity over assigned keys, keys pending pruning and provider keys of the other validators
		w.Eval("C05")
		for a, g := range got {
			if _, isProv := after[a]; isProv && a != g && isActivePhase(ph) {
				w.Violation("C05", "provider-key-of-one-validator-assigned-to-another", map[string]any{"consumer": cid, "key": w.keyName(hexToBytes(a)), "assigned_to": w.valNameHex(g)})
			}
		}
		// forward map consistent with the index
		for _, e := range pk.GetAllValidatorConsumerPubKeys(ctx, &cidc) {
			ca, err := ccv.TMCryptoPublicKeyToConsAddr(*e.ConsumerKey)
			if err != nil {
				continue
			}
			if got[consHex(ca)] != consHex(e.ProviderAddr) {
				w.Violation("C05", "assigned-key-and-index-disagree", map[string]any{"consumer": cid, "validator": w.valNameHex(consHex(e.ProviderAddr))})
			}
			if m.cr(cid)[consHex(e.ProviderAddr)] != consHex(ca) {
				w.Violation("C05", "assigned-key-differs-from-model", map[string]any{"consumer": cid, "validator": w.valNameHex(consHex(e.ProviderAddr)), "stored": w.keyName(ca)})
			}
		}
		// never-assigned addresses resolve to themselves; known ones to their validator (API level)
		for _, v := range w.Vals {
			if !v.Created {
				continue
			}
			pa := pk.GetProviderAddrFromConsumerAddr(ctx, cid, providertypes.NewConsumerConsAddress(v.ConsAddr()))
			a := consHex(v.ConsAddr())
			wantRes := a
			if e, ok := want[a]; ok {
				wantRes = e.val
			}
			w.Eval("C06")
			if consHex(pa.ToSdkConsAddr()) != wantRes {
				w.Violation("C06", "provider-key-resolution", map[string]any{"consumer": cid, "validator": w.valNameHex(a), "resolved": w.valNameHex(consHex(pa.ToSdkConsAddr()))})
			}
		}
	}
	if len(m.idx) > 0 {
		n := 0
		for _, ix := range m.idx {
			n += len(ix)
		}
		w.Sample("C05", map[string]any{"height": req.Height, "consumers_with_keys": len(m.idx), "index_entries": n})
		w.Sample("C06", map[string]any{"height": req.Height, "index_entries": n, "time": now.String()})
	}
}

func (w *World) allProvKeys() []*ConsKey {
	seen := map[string]bool{}
	var out []*ConsKey
	for i := 0; i < len(w.Vals); i++ {
		k := NewConsKey(fmt.Sprintf("prov-%d", i))
		if !seen[k.Name] {
			seen[k.Name] = true
			out = append(out, k)
		}
	}
	return out
}

func offsetClass(d time.Duration) string {
	switch {
	case d == 0:
		return "0"
	case d <= time.Nanosecond:
		return "1ns"
	case d <= 10*time.Second:
		return "<=10s"
	case d <= 5*time.Minute:
		return "<=5m"
	}
	return ">5m"
}

var _ = sort.Strings
