package sim

import (
	"time"

	"cosmossdk.io/math"

	sdk "github.com/cosmos/cosmos-sdk/types"
	authtypes "github.com/cosmos/cosmos-sdk/x/auth/types"
	govtypes "github.com/cosmos/cosmos-sdk/x/gov/types"
	govv1 "github.com/cosmos/cosmos-sdk/x/gov/types/v1"
	stakingtypes "github.com/cosmos/cosmos-sdk/x/staking/types"

	clienttypes "github.com/cosmos/ibc-go/v10/modules/core/02-client/types"

	providertypes "github.com/cosmos/interchain-security/v7/x/ccv/provider/types"
)

func GovAddr() string { return authtypes.NewModuleAddress(govtypes.ModuleName).String() }

func coin(n int64) sdk.Coin { return sdk.NewCoin(BondDenom, math.NewInt(n)) }

func DefaultInitParams(spawn time.Time, unbonding time.Duration) *providertypes.ConsumerInitializationParameters {
	return &providertypes.ConsumerInitializationParameters{
		InitialHeight:                     clienttypes.NewHeight(0, 1),
		GenesisHash:                       []byte("gen_hash"),
		BinaryHash:                        []byte("bin_hash"),
		SpawnTime:                         spawn,
		UnbondingPeriod:                   unbonding,
		CcvTimeoutPeriod:                  4 * 7 * 24 * time.Hour,
		TransferTimeoutPeriod:             time.Hour,
		ConsumerRedistributionFraction:    "0.75",
		BlocksPerDistributionTransmission: 5,
		HistoricalEntries:                 10000,
		DistributionTransmissionChannel:   "",
	}
}

func Metadata(name string) providertypes.ConsumerMetadata {
	return providertypes.ConsumerMetadata{Name: name, Description: "d", Metadata: "m"}
}

func MsgCreateConsumer(owner *Account, chainID string, init *providertypes.ConsumerInitializationParameters,
	ps *providertypes.PowerShapingParameters, inf *providertypes.InfractionParameters,
) *providertypes.MsgCreateConsumer {
	return &providertypes.MsgCreateConsumer{
		Submitter:                owner.Addr.String(),
		ChainId:                  chainID,
		Metadata:                 Metadata(chainID),
		InitializationParameters: init,
		PowerShapingParameters:   ps,
		InfractionParameters:     inf,
	}
}

func MsgOptIn(v *Val, consumerID string, key *ConsKey) *providertypes.MsgOptIn {
	m := &providertypes.MsgOptIn{ConsumerId: consumerID, ProviderAddr: v.ValAddr.String(), Signer: v.Oper.Addr.String()}
	if key != nil {
		m.ConsumerKey = key.SDKPubKeyJSON()
	}
	return m
}

func MsgOptOut(v *Val, consumerID string) *providertypes.MsgOptOut {
	return &providertypes.MsgOptOut{ConsumerId: consumerID, ProviderAddr: v.ValAddr.String(), Signer: v.Oper.Addr.String()}
}

func MsgAssignKey(v *Val, consumerID string, key *ConsKey) *providertypes.MsgAssignConsumerKey {
	return &providertypes.MsgAssignConsumerKey{ConsumerId: consumerID, ProviderAddr: v.ValAddr.String(),
		ConsumerKey: key.SDKPubKeyJSON(), Signer: v.Oper.Addr.String()}
}

func MsgCommission(v *Val, consumerID string, rate math.LegacyDec) *providertypes.MsgSetConsumerCommissionRate {
	return &providertypes.MsgSetConsumerCommissionRate{ConsumerId: consumerID, ProviderAddr: v.ValAddr.String(),
		Rate: rate, Signer: v.Oper.Addr.String()}
}

func MsgDelegate(d *Account, v *Val, amt int64) *stakingtypes.MsgDelegate {
	return stakingtypes.NewMsgDelegate(d.Addr.String(), v.ValAddr.String(), coin(amt))
}

func MsgUndelegate(d *Account, v *Val, amt int64) *stakingtypes.MsgUndelegate {
	return stakingtypes.NewMsgUndelegate(d.Addr.String(), v.ValAddr.String(), coin(amt))
}

func MsgRedelegate(d *Account, src, dst *Val, amt int64) *stakingtypes.MsgBeginRedelegate {
	return stakingtypes.NewMsgBeginRedelegate(d.Addr.String(), src.ValAddr.String(), dst.ValAddr.String(), coin(amt))
}

// GovProposal wraps messages (whose authority must be the gov account) in a MsgSubmitProposal with enough deposit.
func GovProposal(proposer *Account, msgs ...sdk.Msg) *govv1.MsgSubmitProposal {
	m, err := govv1.NewMsgSubmitProposal(msgs, sdk.NewCoins(coin(10_000)), proposer.Addr.String(), "", "t", "s", false)
	if err != nil {
		panic(err)
	}
	return m
}

func MsgVoteYes(voter *Account, id uint64) *govv1.MsgVote {
	return govv1.NewMsgVote(voter.Addr, id, govv1.OptionYes, "")
}
