package sim

import (
	"fmt"
	"math/rand"
	"os"
	"runtime/debug"
	"strings"
	"testing"
	"time"

	sdk "github.com/cosmos/cosmos-sdk/types"

	providertypes "github.com/cosmos/interchain-security/v7/x/ccv/provider/types"
)

var tokenShapes = [][]int64{
	// equal consensus power, different tokens, around every rank
	{5_000_000, 3_000_000, 3_999_999, 3_500_000, 3_000_001, 2_000_000, 2_999_999, 1_000_000, 1_000_001, 1_999_999, 7_654_321, 1_500_000, 4_000_000, 4_400_000},
	{9_000_000, 1_000_000, 1_000_000, 1_000_000, 1_100_000, 1_200_000, 1_999_999, 2_000_000, 2_000_000, 2_500_000, 3_000_000, 1_000_000, 1_000_000, 6_000_000},
	{2_000_000, 2_000_001, 2_000_002, 2_999_999, 2_500_000, 2_100_000, 2_000_000, 2_700_000, 2_000_000, 2_345_678, 2_000_000, 2_900_000, 2_000_000, 2_000_000},
	{50_000_000, 30_000_000, 10_000_000, 5_000_000, 5_500_000, 5_999_999, 2_000_000, 1_000_000, 1_000_000, 1_234_567, 8_000_000, 8_000_001, 8_999_999, 1_000_000},
}

// MakeConfig derives a world configuration from (profile, tier, seed, index).
func MakeConfig(profile, tier string, seed int64, idx int) Config {
	r := rand.New(rand.NewSource(seed*1_000_003 + int64(idx)*7919 + int64(len(profile))))
	cfg := Config{Seed: seed*1_000_003 + int64(idx), Profile: profile, Tier: tier}
	cfg.NumVals = 6 + r.Intn(5)
	cfg.SpareVals = 2
	if tier == "thorough" {
		cfg.NumVals = 6 + r.Intn(9)
	}
	shape := tokenShapes[r.Intn(len(tokenShapes))]
	perm := r.Perm(len(shape))
	for i := 0; i < cfg.NumVals; i++ {
		cfg.Tokens = append(cfg.Tokens, shape[perm[i]])
	}
	cfg.M = int64(2 + r.Intn(cfg.NumVals))
	cfg.MaxValidators = 100
	cfg.BlocksPerEpoch = []int64{1, 2, 3, 5}[r.Intn(4)]
	cfg.Unbonding = time.Duration(600+r.Intn(1400)) * time.Second
	cfg.ConsumerUnbonding = cfg.Unbonding * 4 / 5
	cfg.EpochsToRewards = int64([]int{1, 2, 3}[r.Intn(3)])
	cfg.SlashFraction = []string{"0.05", "0.34", "1.0", "0.001"}[r.Intn(4)]
	cfg.SlashPeriod = []time.Duration{10 * time.Second, time.Hour, 60 * time.Second}[r.Intn(3)]
	cfg.VotingPeriod = 20 * time.Second
	cfg.CcvTimeout = 4 * 7 * 24 * time.Hour
	cfg.SignedWindow = 6
	cfg.KeyPoolSize = 2 * cfg.NumVals
	cfg.HandshakeDelayMax = 12
	cfg.Steps = 110
	if tier == "thorough" {
		cfg.Steps = 260
	}
	switch profile {
	case "valset":
		cfg.LiveConsumers = 2 + r.Intn(2)
	case "slash":
		cfg.LiveConsumers = 2
		cfg.Votes = true
		cfg.HandshakeDelayMax = 3
		cfg.Hostile = idx%2 == 1
		cfg.RetryDelay = []time.Duration{10 * time.Second, 60 * time.Second, 10 * time.Minute}[r.Intn(3)]
		cfg.TransferTimeout = []time.Duration{3 * time.Second, 30 * time.Minute, 0}[r.Intn(3)]
	case "lifecycle":
		cfg.LiveConsumers = 2
		cfg.HandshakeDelayMax = 4
		cfg.StarveSome = true
		cfg.CcvTimeout = time.Duration(120+r.Intn(400)) * time.Second
		if idx%2 == 1 {
			cfg.ErrAckStep = 12 + r.Intn(25)
		}
		if idx%4 == 2 {
			cfg.LateHandshakeStop = true
			cfg.LiveConsumers = 3
		}
	case "rewards":
		cfg.LiveConsumers = 2
		cfg.HandshakeDelayMax = 2
		cfg.BlocksPerEpoch = []int64{1, 2, 3}[r.Intn(3)]
	case "keys":
		cfg.LiveConsumers = 1
		cfg.KeyPoolSize = cfg.NumVals + 2
		cfg.HandshakeDelayMax = 3
	}
	if os.Getenv("VERIF_RECORD") != "" {
		cfg.Record = true
	}
	return cfg
}

func menuFor(profile string) []opGen {
	switch profile {
	case "valset":
		return []opGen{
			{"delegate", 22, opDelegate}, {"undelegate", 16, opUndelegate}, {"redelegate", 6, opRedelegate},
			{"unjail", 3, opUnjail}, {"create-validator", 2, opCreateValidator}, {"retire-validator", 1, opRetireValidator},
			{"create-consumer", 3, opCreateConsumer}, {"update-consumer", 6, opUpdateConsumer}, {"update-lists", 4, opUpdateLists}, {"remove-consumer", 1, opRemoveConsumer},
			{"opt-in", 8, opOptIn}, {"opt-out", 6, opOptOut}, {"assign-key", 6, opAssignKey}, {"commission", 1, opCommission},
			{"gov-params", 2, opGovParams}, {"gov-staking", 1, opGovStaking}, {"to-gov", 2, opToGov}, {"gov-topn", 4, opGovTopN},
		}
	case "slash":
		return []opGen{
			{"delegate", 6, opDelegate}, {"undelegate", 6, opUndelegate}, {"redelegate", 2, opRedelegate},
			{"unjail", 8, opUnjail}, {"opt-in", 6, opOptIn}, {"opt-out", 1, opOptOut}, {"assign-key", 6, opAssignKey},
			{"update-consumer", 3, opUpdateConsumer}, {"gov-params", 2, opGovParams}, {"gov-staking", 1, opGovStaking},
			{"create-consumer", 1, opCreateConsumer}, {"infraction", 8, opInfraction}, {"infraction-pair", 3, opInfractionPair},
		}
	case "lifecycle":
		return []opGen{
			{"create-consumer", 14, opCreateConsumer}, {"update-consumer", 14, opUpdateConsumer}, {"update-lists", 4, opUpdateLists}, {"remove-consumer", 5, opRemoveConsumer},
			{"opt-in", 10, opOptIn}, {"opt-out", 3, opOptOut}, {"assign-key", 4, opAssignKey}, {"commission", 2, opCommission},
			{"delegate", 9, opDelegate}, {"undelegate", 6, opUndelegate},
			{"to-gov", 3, opToGov}, {"gov-topn", 4, opGovTopN}, {"gov-staking", 2, opGovStaking}, {"infraction", 12, opInfraction}, {"infraction-pair", 5, opInfractionPair},
		}
	case "rewards":
		return []opGen{
			{"delegate", 5, opDelegate}, {"undelegate", 4, opUndelegate},
			{"opt-in", 6, opOptIn}, {"opt-out", 5, opOptOut}, {"assign-key", 2, opAssignKey}, {"commission", 6, opCommission},
			{"update-consumer", 4, opUpdateConsumer}, {"gov-params", 2, opGovParams},
		}
	case "keys":
		return []opGen{
			{"assign-key", 20, opAssignKey}, {"opt-in", 8, opOptIn}, {"opt-out", 3, opOptOut},
			{"create-validator", 6, opCreateValidator}, {"undelegate", 5, opUndelegate}, {"delegate", 3, opDelegate}, {"retire-validator", 3, opRetireValidator},
			{"create-consumer", 4, opCreateConsumer}, {"update-consumer", 2, opUpdateConsumer}, {"remove-consumer", 2, opRemoveConsumer},
			{"gov-staking", 1, opGovStaking},
		}
	}
	return nil
}

// pickDt chooses the next time step: mostly block-sized, sometimes aimed at a pending deadline.
func (w *World) pickDt() (time.Duration, bool) {
	r := w.Rnd.Intn(100)
	switch {
	case r < 55:
		return 5 * time.Second, false
	case r < 70:
		return time.Second, false
	case r < 80:
		return time.Minute, false
	case r < 90:
		// aim at a pending deadline: exactly on it, 1ns before or 1ns after
		if d, ok := w.nextDeadline(); ok {
			delta := d.Sub(w.Now) + time.Duration(w.Rnd.Intn(3)-1)
			if delta > 0 && delta < 3*w.Cfg.Unbonding {
				return delta, true
			}
		}
		return 5 * time.Second, false
	case r < 96:
		return w.Cfg.Unbonding / 10, true
	default:
		return w.Cfg.Unbonding/2 + time.Duration(w.Rnd.Intn(3)-1), true
	}
}

// nextDeadline returns the closest future deadline known from provider state (spawn, removal, prune, infraction update, replenish).
func (w *World) nextDeadline() (time.Time, bool) {
	var best time.Time
	consider := func(t time.Time) {
		if t.After(w.Now) && (best.IsZero() || t.Before(best)) {
			best = t
		}
	}
	pk := w.P.PApp.ProviderKeeper
	ctx := w.P.Ctx()
	for _, ci := range w.Shadow.Consumers {
		switch pk.GetConsumerPhase(ctx, ci.ID) {
		case providertypes.CONSUMER_PHASE_INITIALIZED:
			if ip, err := pk.GetConsumerInitializationParameters(ctx, ci.ID); err == nil {
				consider(ip.SpawnTime)
			}
		case providertypes.CONSUMER_PHASE_STOPPED:
			if t, err := pk.GetConsumerRemovalTime(ctx, ci.ID); err == nil {
				consider(t)
			}
		case providertypes.CONSUMER_PHASE_LAUNCHED:
			if t, err := pk.GetConsumerInfractionUpdateTime(ctx, ci.ID); err == nil {
				consider(t)
			}
			for _, p := range pk.GetAllConsumerAddrsToPrune(ctx, ci.ID) {
				consider(p.PruneTs)
			}
		}
	}
	consider(pk.GetSlashMeterReplenishTimeCandidate(ctx))
	if w.Rnd.Intn(3) == 0 {
		// pick a random one instead of the closest, so that far deadlines get hit too
		return best, !best.IsZero()
	}
	return best, !best.IsZero()
}

// setupLive creates the live consumers of the world and opts validators in.
func (w *World) setupLive() {
	owner := w.Accts["owner0"]
	for i := 0; i < w.Cfg.LiveConsumers; i++ {
		spawn := w.Now.Add(time.Duration(60+10*i) * time.Second)
		var ps *providertypes.PowerShapingParameters
		if i > 0 {
			ps = w.randPowerShaping()
			ps.Allowlist = nil // keep live consumers launchable
			ps.MinStake = 0
		}
		msg := MsgCreateConsumer(owner, fmt.Sprintf("live%d", i), DefaultInitParams(spawn, w.Cfg.ConsumerUnbonding), ps, nil)
		w.Tick()
		outs := w.ProviderStep([]TxSpec{{Signer: owner, Msgs: []sdk.Msg{msg}, Tag: "live"}}, true, nil)
		if len(outs) != 1 || !outs[0].OK() {
			panic(fmt.Sprintf("setupLive: create failed: %s", logOf(outs[0])))
		}
	}
	var specs []TxSpec
	// the second live consumer becomes a Top-N consumer: ownership to governance, then a proposal
	if len(w.Shadow.Consumers) >= 2 && w.Cfg.Profile != "rewards" && !strings.HasPrefix(w.Cfg.Profile, "fault-") {
		ci := w.Shadow.Consumers[1]
		w.Tick()
		w.ProviderStep([]TxSpec{{Signer: owner, Msgs: []sdk.Msg{&providertypes.MsgUpdateConsumer{Owner: owner.Addr.String(), ConsumerId: ci.ID, NewOwnerAddress: GovAddr()}}, Tag: "update-consumer:owner->gov"}}, true, nil)
		ps, _ := w.P.PApp.ProviderKeeper.GetConsumerPowerShapingParameters(w.P.Ctx(), ci.ID)
		ps.Top_N = topNMenu[w.Rnd.Intn(len(topNMenu))]
		w.propsThisStep = 0
		w.createsThisStep = 0
		op := w.withVotes(one("gov-topn", w.Accts["faucet"], GovProposal(w.Accts["faucet"], &providertypes.MsgUpdateConsumer{Owner: GovAddr(), ConsumerId: ci.ID, PowerShapingParameters: &ps})))
		w.Tick()
		w.ProviderStep(op.Specs, false, nil)
		w.syncShadow()
	}
	for _, ci := range w.Shadow.Consumers {
		for _, v := range w.createdVals() {
			if w.Rnd.Intn(5) == 0 && v.Idx != 0 {
				continue
			}
			var key *ConsKey
			if w.Rnd.Intn(4) == 0 {
				key = w.KeyPool[(v.Idx+len(w.Shadow.Consumers)*3)%len(w.KeyPool)]
			}
			specs = append(specs, TxSpec{Signer: v.Oper, Msgs: []sdk.Msg{MsgOptIn(v, ci.ID, key)}, Tag: "opt-in"})
		}
	}
	w.Tick()
	w.ProviderStep(specs, false, nil)
}

// setupKeysCrowd creates eleven further (dormant) consumers that launch at once, so that ids 1, 2, 10, 11 exist and are launched
// from the start of a keys world.
func (w *World) setupKeysCrowd() {
	owner := w.Accts["owner1"]
	var specs []TxSpec
	spawn := w.Now.Add(20 * time.Second)
	for i := 0; i < 11; i++ {
		specs = append(specs, TxSpec{Signer: owner, Msgs: []sdk.Msg{MsgCreateConsumer(owner, fmt.Sprintf("crowd%d", i%3), DefaultInitParams(spawn, w.Cfg.ConsumerUnbonding), nil, nil)}, Tag: "create-consumer"})
	}
	w.Tick()
	w.ProviderStep(specs, false, nil)
	w.syncShadow()
	specs = nil
	for _, ci := range w.Shadow.Consumers {
		if ci.WantLive {
			continue
		}
		for _, v := range w.createdVals() {
			if (v.Idx+len(ci.ID))%4 == 0 {
				continue
			}
			specs = append(specs, TxSpec{Signer: v.Oper, Msgs: []sdk.Msg{MsgOptIn(v, ci.ID, nil)}, Tag: "opt-in"})
		}
	}
	w.Tick()
	w.ProviderStep(specs, false, nil)
	for i := 0; i < 5; i++ {
		w.Tick()
		w.ProviderStep(nil, false, nil)
	}
	w.Op("keys crowd: %d consumers", len(w.Shadow.Consumers))
}

// syncShadow refreshes owner information from chain state (ownership can change through governance).
func (w *World) syncShadow() {
	pk := w.P.PApp.ProviderKeeper
	ctx := w.P.Ctx()
	for _, ci := range w.Shadow.Consumers {
		if o, err := pk.GetConsumerOwnerAddress(ctx, ci.ID); err == nil {
			ci.Owner = w.acctByAddr(o)
		}
		if c, err := pk.GetConsumerChainId(ctx, ci.ID); err == nil {
			ci.ChainID = c
		}
	}
}

// MainLoop runs the generated workload.
func (w *World) MainLoop() {
	w.menu = menuFor(w.Cfg.Profile)
	if w.Cfg.Profile == "slash" {
		w.installSlashHooks()
	}
	if w.Cfg.Profile == "rewards" {
		w.installRewardsHooks()
	}
	w.setupLive()
	if w.Cfg.Profile == "keys" {
		w.setupKeysCrowd()
	}
	for w.Step = 1; w.Step <= w.Cfg.Steps; w.Step++ {
		if w.P.Halted {
			break
		}
		dt, long := w.pickDt()
		if long {
			w.Op("time +%s (long)", dt)
			w.LongAdvance(dt, !(w.Step > w.Cfg.Steps*2/3 && w.Rnd.Intn(12) == 0))
		} else {
			w.AdvanceTime(dt)
		}
		var specs []TxSpec
		solo := false
		w.propsThisStep = 0
		w.createsThisStep = 0
		nops := w.Rnd.Intn(4)
		for i := 0; i < nops; i++ {
			op := w.pickOp()
			if op == nil {
				continue
			}
			if op.Solo {
				if len(specs) == 0 {
					specs = op.Specs
					solo = true
				}
				break
			}
			specs = append(specs, op.Specs...)
		}
		if !solo {
			if w.stepExtra != nil {
				specs = append(specs, w.stepExtra()...)
			}
			for _, ci := range w.Shadow.Consumers {
				if ci.RemoveAt > 0 && ci.RemoveAt == w.Step && ci.Owner != nil && w.Phase(ci.ID) == phLaunch {
					w.Op("remove-consumer %s by its owner before its CCV handshake", ci.ID)
					specs = append(specs, TxSpec{Signer: ci.Owner, Msgs: []sdk.Msg{&providertypes.MsgRemoveConsumer{ConsumerId: ci.ID, Owner: ci.Owner.Addr.String()}}, Tag: "remove-consumer"})
				}
			}
		}
		w.ProviderStep(specs, solo, w.providerOpts())
		w.syncShadow()
		w.ConsumersStep()
		w.maybeKeepAlive()
	}
	// drain: a few quiet rounds so that in-flight traffic settles and end-of-run checks see a steady state
	for i := 0; i < 6 && !w.P.Halted; i++ {
		w.Step++
		w.Tick()
		w.ProviderStep(nil, false, nil)
		w.ConsumersStep()
	}
}

func (w *World) hasUnvotedProps() bool {
	for _, p := range w.Shadow.Props {
		if !p.Voted {
			return true
		}
	}
	return false
}

func (w *World) providerOpts() *BlockOpts {
	if w.providerBlockOpts != nil {
		return w.providerBlockOpts()
	}
	return nil
}

// RunWorld builds a world for (profile, tier, seed, idx), attaches all monitors, runs it and writes the result file.
func RunWorld(t testing.TB, profile, tier string, seed int64, idx int, out string) {
	start := time.Now()
	cfg := MakeConfig(profile, tier, seed, idx)
	name := fmt.Sprintf("%s-%s-%d-%d", profile, tier, seed, idx)
	w := NewWorld(t, name, cfg)
	fatal := ""
	func() {
		defer func() {
			if r := recover(); r != nil {
				fatal = fmt.Sprintf("harness panic: %v\n%s", r, debug.Stack())
			}
		}()
		pr := w.AttachMonitors()
		w.Init(pr)
		w.MainLoop()
		w.FinalChecks()
	}()
	if rp := os.Getenv("VERIF_RECORD"); rp != "" && w.Cfg.Record {
		if err := w.WriteRecord(rp); err != nil {
			fatal += "\nwrite record: " + err.Error()
		}
	}
	w.Finish(out, start, fatal)
}
