package sim

import (
	"fmt"
	"os"
	"strconv"
	"testing"
	"time"

	sdk "github.com/cosmos/cosmos-sdk/types"

	providertypes "github.com/cosmos/interchain-security/v7/x/ccv/provider/types"
)

// TestBulk200 drives the "more than 200 due in one block" clauses: launches (C10), infraction-parameter changes (C20)
// and removals (C11) for 230 consumers that all become due at the same instant. The standing monitors decide.
func TestBulk200(t *testing.T) {
	if os.Getenv("VERIF_DIRECTED") == "" {
		t.Skip("directed test; run through ./check")
	}
	start := time.Now()
	seed, _ := strconv.ParseInt(os.Getenv("VERIF_SEED"), 10, 64)
	tier := os.Getenv("VERIF_TIER")
	cfg := MakeConfig("lifecycle", tier, seed, 7000)
	cfg.LiveConsumers = 0
	cfg.Profile = "bulk"
	cfg.StarveSome = false
	cfg.BlocksPerEpoch = 5
	w := NewWorld(t, fmt.Sprintf("bulk200-%s-%d", tier, seed), cfg)
	fatal := ""
	func() {
		defer func() {
			if r := recover(); r != nil {
				fatal = fmt.Sprintf("harness panic: %v", r)
			}
		}()
		pr := w.AttachMonitors()
		w.Init(pr)
		// layouts of the due times: the 200-per-block limit falls exactly on the end of a time bucket (150+50), in the middle of one
		// (120+110), everything in one bucket, every consumer in a bucket of its own
		layouts := [][]int{{150, 50, 20, 10}, {120, 110}, {230}, nil}
		rounds := []int{0, 1 + int(seed%2)}
		if tier == "thorough" {
			rounds = []int{0, 1, 2, 3}
		}
		for _, r := range rounds {
			g := layouts[r]
			if g == nil {
				for i := 0; i < 215; i++ {
					g = append(g, 1)
				}
			}
			w.Event("C10", fmt.Sprintf("bulk-layout:%d", r))
			runBulk(w, g)
		}
		w.FinalChecks()
	}()
	w.Finish(os.Getenv("VERIF_OUT"), start, fatal)
}

func runBulk(w *World, groups []int) {
	owners := []*Account{w.Accts["owner0"], w.Accts["owner1"], w.Accts["owner2"]}
	spawn := w.Now.Add(10 * time.Minute).Truncate(time.Second)
	n := 0
	var groupOf []int
	for gi, g := range groups {
		n += g
		for i := 0; i < g; i++ {
			groupOf = append(groupOf, gi)
		}
	}
	// creation in batches (several transactions per block); group g is due at spawn + g seconds
	var ids []string
	var grp []int
	made := 0
	for made < n {
		var specs []TxSpec
		var gs []int
		for i := 0; i < 46 && made+len(specs) < n; i++ {
			k := made + i
			o := owners[k%3]
			sp := spawn.Add(time.Duration(groupOf[k]) * time.Second)
			specs = append(specs, TxSpec{Signer: o, Msgs: []sdk.Msg{MsgCreateConsumer(o, fmt.Sprintf("bulk%d", k%7), DefaultInitParams(sp, w.Cfg.ConsumerUnbonding), nil, nil)}, Tag: "create-consumer"})
			gs = append(gs, groupOf[k])
		}
		made += len(specs)
		w.Tick()
		for i, o := range w.ProviderStep(specs, false, nil) {
			if o.OK() {
				ids = append(ids, eventAttr(o.Result.Events, providertypes.EventTypeCreateConsumer, providertypes.AttributeConsumerId))
				grp = append(grp, gs[i])
			}
		}
	}
	// opt-ins: two validators each (a few consumers get none and must fall back to registered)
	// opt-ins come from validators of the provider's own consensus set, so that almost all launches succeed
	var vals []*Val
	if rec, err := w.P.PApp.ProviderKeeper.GetLastProviderConsensusValSet(w.P.Ctx()); err == nil {
		for _, r := range rec {
			for _, v := range w.createdVals() {
				if consHex(v.ConsAddr()) == consHex(r.ProviderConsAddr) {
					vals = append(vals, v)
				}
			}
		}
	}
	if len(vals) == 0 {
		vals = w.createdVals()
	}
	var specs []TxSpec
	flush := func() {
		if len(specs) > 0 {
			w.Tick()
			w.ProviderStep(specs, false, nil)
			specs = nil
		}
	}
	for i, id := range ids {
		if i%37 == 5 {
			continue
		}
		for k := 0; k < 2; k++ {
			v := vals[(i+k)%len(vals)]
			specs = append(specs, TxSpec{Signer: v.Oper, Msgs: []sdk.Msg{MsgOptIn(v, id, nil)}, Tag: "opt-in"})
		}
		if len(specs) >= 120 {
			flush()
		}
	}
	flush()
	w.syncShadow()
	// the launch instant: >200 due in one block, the rest in the following block
	w.Now = spawn.Add(time.Duration(len(groups)) * time.Second)
	w.ProviderStep(nil, false, nil)
	w.Tick()
	w.ProviderStep(nil, false, nil)
	w.Tick()
	w.ProviderStep(nil, false, nil)
	launched := 0
	for _, id := range ids {
		if w.Phase(id) == phLaunch {
			launched++
		}
	}
	w.Event("C10", fmt.Sprintf("bulk-launched=%d", launched))
	// infraction-parameter changes for all launched consumers in ONE block: all due at the same time
	w.syncShadow()
	ip := w.randInfraction(false)
	var changeAt time.Time
	for gi := range groups { // one block per group: the groups become due at different times, all inside one later block
		for i, id := range ids {
			if ci := w.Shadow.ByID[id]; grp[i] == gi && ci != nil && ci.Owner != nil && w.Phase(id) == phLaunch {
				specs = append(specs, TxSpec{Signer: ci.Owner, Msgs: []sdk.Msg{&providertypes.MsgUpdateConsumer{Owner: ci.Owner.Addr.String(), ConsumerId: id, InfractionParameters: ip}}, Tag: "update-consumer:infraction"})
			}
		}
		if len(groups) > 100 {
			w.AdvanceTime(time.Second)
		} else {
			w.Tick()
		}
		changeAt = w.Now
		w.ProviderStep(specs, false, nil)
		specs = nil
	}
	unb, _ := w.P.PApp.StakingKeeper.UnbondingTime(w.P.Ctx())
	// some are replaced / cancelled before they are due
	cur := w.randInfraction(false)
	for i, id := range ids {
		if i%11 != 3 {
			continue
		}
		if ci := w.Shadow.ByID[id]; ci != nil && ci.Owner != nil && w.Phase(id) == phLaunch {
			specs = append(specs, TxSpec{Signer: ci.Owner, Msgs: []sdk.Msg{&providertypes.MsgUpdateConsumer{Owner: ci.Owner.Addr.String(), ConsumerId: id, InfractionParameters: cur}}, Tag: "update-consumer:infraction"})
		}
	}
	w.Tick()
	w.ProviderStep(specs, false, nil)
	specs = nil
	w.Now = changeAt.Add(unb)
	w.ProviderStep(nil, false, nil) // >200 changes due
	w.Tick()
	w.ProviderStep(nil, false, nil)
	w.Tick()
	w.ProviderStep(nil, false, nil)
	// removal of all launched consumers in ONE block
	w.syncShadow()
	var stopAt time.Time
	for gi := range groups {
		for i, id := range ids {
			if ci := w.Shadow.ByID[id]; grp[i] == gi && ci != nil && ci.Owner != nil && w.Phase(id) == phLaunch {
				specs = append(specs, TxSpec{Signer: ci.Owner, Msgs: []sdk.Msg{&providertypes.MsgRemoveConsumer{ConsumerId: id, Owner: ci.Owner.Addr.String()}}, Tag: "remove-consumer"})
			}
		}
		if len(groups) > 100 {
			w.AdvanceTime(time.Second)
		} else {
			w.Tick()
		}
		stopAt = w.Now
		w.ProviderStep(specs, false, nil)
		specs = nil
	}
	w.Tick()
	w.ProviderStep(nil, false, nil)
	unb, _ = w.P.PApp.StakingKeeper.UnbondingTime(w.P.Ctx())
	w.Now = stopAt.Add(unb)
	w.ProviderStep(nil, false, nil) // >200 removals due
	w.Tick()
	w.ProviderStep(nil, false, nil)
	w.Tick()
	w.ProviderStep(nil, false, nil)
}
