package sim

import (
	"fmt"
	"sort"
	"strings"
	"time"

	abci "github.com/cometbft/cometbft/abci/types"

	sdk "github.com/cosmos/cosmos-sdk/types"

	transfertypes "github.com/cosmos/ibc-go/v10/modules/apps/transfer/types"
	channeltypes "github.com/cosmos/ibc-go/v10/modules/core/04-channel/types"

	providertypes "github.com/cosmos/interchain-security/v7/x/ccv/provider/types"
	ccv "github.com/cosmos/interchain-security/v7/x/ccv/types"
)

// monC13: consumers are isolated from one another (provider store diffs attributed to consumer ids).
type monC13 struct {
	w              *World
	layoutOK       bool
	prevEnd        StoreSnap
	begin          StoreSnap
	preEnd         StoreSnap
	postEnd        StoreSnap
	epoch          bool
	now            time.Time
	beginConcerned map[string]bool
}

func init() {
	registerMonitor(func(w *World) Monitor {
		m := &monC13{w: w}
		if err := validateKeyLayout(); err != nil {
			w.Event("C13", "key-layout-unknown")
			w.Infof("C13 disabled: %v", err)
		} else {
			m.layoutOK = true
		}
		return m
	})
}

func (m *monC13) Name() string { return "C13" }

func (m *monC13) snap(ctx sdk.Context) StoreSnap {
	return snapStore(ctx, m.w.P.PApp.GetKey(providertypes.StoreKey))
}

// dueIDs returns the ids a time queue would hand out at `now` (at most 200, in key order).
func dueIDs(s StoreSnap, prefix byte, now time.Time) []string {
	var keys []string
	for k := range s {
		if len(k) > 0 && k[0] == prefix {
			keys = append(keys, k)
		}
	}
	sort.Strings(keys)
	var out []string
	for _, k := range keys {
		ts, err := providertypes.ParseTime(prefix, []byte(k))
		if err != nil || ts.After(now) {
			break
		}
		var ids providertypes.ConsumerIds
		if ids.Unmarshal(s[k]) != nil {
			continue
		}
		for _, id := range ids.Ids {
			if len(out) >= 200 {
				return out
			}
			out = append(out, id)
		}
	}
	return out
}

func (m *monC13) PostBegin(ctx sdk.Context) {
	if !m.layoutOK {
		return
	}
	w := m.w
	m.begin = m.snap(ctx)
	m.now = ctx.BlockTime()
	if m.prevEnd == nil {
		return
	}
	concerned := map[string]bool{}
	for _, p := range []byte{51, 52, 59} {
		for _, id := range dueIDs(m.prevEnd, p, m.now) {
			concerned[id] = true
		}
	}
	m.beginConcerned = concerned
	changes := diffSnap(m.prevEnd, m.begin)
	sum := summarizeDiff(changes)
	w.Eval("C13")
	// reward allocation runs over all consumers that hold credits, but a consumer's credit may only be consumed in a denom that is
	// registered globally or allow-listed by THAT consumer - never because another consumer allow-lists it
	m.checkRewardCredits(ctx, changes)
	for id, prefixes := range sum.Owners {
		if concerned[id] {
			continue
		}
		for _, p := range prefixes {
			if p == 55 {
				continue // reward allocation runs over all consumers that hold credits
			}
			w.Violation("C13", fmt.Sprintf("beginblock-touched-unconcerned-consumer:prefix%d", p), map[string]any{"consumer": id, "concerned": keysOf(concerned), "height": ctx.BlockHeight()})
		}
	}
	for id := range sum.QueueIDs {
		if !concerned[id] {
			dbg := []string{}
			for _, p := range []byte{51, 52, 59} {
				q1, _ := readQueueSnap(m.prevEnd, p)
				q2, _ := readQueueSnap(m.begin, p)
				dbg = append(dbg, fmt.Sprintf("q%d before=%v after=%v", p, q1, q2))
			}
			w.Violation("C13", "beginblock-moved-unconcerned-consumer-in-time-queue", map[string]any{"consumer": id, "concerned": keysOf(concerned), "now": m.now.String(), "queues": dbg})
		}
	}
	if len(concerned) > 0 {
		w.Event("C13", "beginblocks-with-lifecycle-events")
		w.Case("C13", fmt.Sprintf("begin concerned=%s others=%s", bucket(len(concerned)), bucket(m.countConsumers()+1)))
	}
	if len(sum.Unknown) > 0 {
		w.Event("C13", "unattributable-keys")
	}
}

// checkRewardCredits: credits (prefix 55 | len | consumer id | denom) that shrank or vanished in this BeginBlock, judged against the
// reward denoms registered globally and the consumer's own allow-list as stored before the block.
func (m *monC13) checkRewardCredits(ctx sdk.Context, changes []KeyChange) {
	w := m.w
	pk := w.P.PApp.ProviderKeeper
	var global map[string]bool
	for _, ch := range changes {
		if len(ch.Key) < 9 || ch.Key[0] != 55 || ch.Old == nil {
			continue
		}
		o := ownerOfKey(ch.Key, ch.Old)
		if !o.known || o.owner == "" {
			continue
		}
		denom := string(ch.Key[9+len(o.owner):])
		var before, after providertypes.ConsumerRewardsAllocation
		if before.Unmarshal(ch.Old) != nil {
			continue
		}
		if ch.New != nil && after.Unmarshal(ch.New) != nil {
			continue
		}
		if !sdk.DecCoins(after.Rewards).AmountOf(denom).LT(sdk.DecCoins(before.Rewards).AmountOf(denom)) {
			continue
		}
		if global == nil {
			global = map[string]bool{}
			for _, d := range pk.GetAllConsumerRewardDenoms(ctx) {
				global[d] = true
			}
		}
		own := false
		if ds, err := pk.GetAllowlistedRewardDenoms(ctx, o.owner); err == nil {
			for _, d := range ds {
				if d == denom {
					own = true
				}
			}
		}
		w.Eval("C13")
		w.Event("C13", "reward-credits-consumed-judged-against-own-denoms")
		if !global[denom] && !own {
			others := []string{}
			for _, id := range pk.GetAllConsumerIds(ctx) {
				if ds, err := pk.GetAllowlistedRewardDenoms(ctx, id); err == nil && id != o.owner {
					for _, d := range ds {
						if d == denom {
							others = append(others, id)
						}
					}
				}
			}
			w.Violation("C13", "reward-credit-consumed-in-denom-only-another-consumer-allows", map[string]any{"consumer": o.owner, "denom": denom, "allowed_by": others, "height": ctx.BlockHeight()})
		}
	}
}

func (m *monC13) countConsumers() int {
	n, _ := m.w.P.PApp.ProviderKeeper.GetConsumerId(m.w.P.Ctx())
	return int(n)
}

func keysOf(m map[string]bool) []string {
	var out []string
	for k := range m {
		out = append(out, k)
	}
	sort.Strings(out)
	return out
}

func (m *monC13) PreEnd(ctx sdk.Context) {
	if m.layoutOK {
		m.preEnd = m.snap(ctx)
	}
}

func (m *monC13) PostEnd(ctx sdk.Context) {
	if !m.layoutOK {
		return
	}
	m.postEnd = m.snap(ctx)
	m.epoch = m.w.P.PApp.ProviderKeeper.BlocksUntilNextEpoch(ctx) == 0
}

// consumersOfTx returns the consumer ids a transaction is about.
func (m *monC13) consumersOfTx(o TxOutcome) (ids []string, kind string) {
	pk := m.w.P.PApp.ProviderKeeper
	ctx := m.w.P.Ctx()
	for _, msg := range o.Spec.Msgs {
		switch t := msg.(type) {
		case *providertypes.MsgCreateConsumer:
			if o.OK() {
				ids = append(ids, eventAttr(o.Result.Events, providertypes.EventTypeCreateConsumer, providertypes.AttributeConsumerId))
			}
			kind = "create"
		case *providertypes.MsgUpdateConsumer:
			ids, kind = append(ids, t.ConsumerId), "update"
		case *providertypes.MsgRemoveConsumer:
			ids, kind = append(ids, t.ConsumerId), "remove"
		case *providertypes.MsgOptIn:
			ids, kind = append(ids, t.ConsumerId), "opt-in"
		case *providertypes.MsgOptOut:
			ids, kind = append(ids, t.ConsumerId), "opt-out"
		case *providertypes.MsgAssignConsumerKey:
			ids, kind = append(ids, t.ConsumerId), "assign-key"
		case *providertypes.MsgSetConsumerCommissionRate:
			ids, kind = append(ids, t.ConsumerId), "commission"
		case *providertypes.MsgSubmitConsumerDoubleVoting:
			ids, kind = append(ids, t.ConsumerId), "double-voting"
		case *providertypes.MsgSubmitConsumerMisbehaviour:
			ids, kind = append(ids, t.ConsumerId), "misbehaviour"
		case *channeltypes.MsgRecvPacket:
			if id, ok := m.consumerOfChannel(t.Packet.DestinationPort, t.Packet.DestinationChannel); ok {
				ids, kind = append(ids, id), "recv-packet"
			}
			if t.Packet.DestinationPort == "transfer" {
				// a token transfer into the rewards pool concerns the consumer its reward memo names: that is how the protocol
				// identifies whose rewards these are (any user of any consumer chain can send one; observation O4 in DESIGN.md)
				var d transfertypes.FungibleTokenPacketData
				if err := transfertypes.ModuleCdc.UnmarshalJSON(t.Packet.Data, &d); err == nil {
					if rm, err := ccv.GetRewardMemoFromTransferMemo(d.Memo); err == nil && rm.ConsumerId != "" {
						ids, kind = append(ids, rm.ConsumerId), "recv-packet"
					}
				}
			}
		case *channeltypes.MsgAcknowledgement:
			if id, ok := m.consumerOfChannel(t.Packet.SourcePort, t.Packet.SourceChannel); ok {
				ids, kind = append(ids, id), "ack"
			}
		case *channeltypes.MsgTimeout:
			if id, ok := m.consumerOfChannel(t.Packet.SourcePort, t.Packet.SourceChannel); ok {
				ids, kind = append(ids, id), "timeout"
			}
		case *channeltypes.MsgChannelOpenTry:
			kind = "handshake"
		case *channeltypes.MsgChannelOpenConfirm:
			if id, ok := pk.GetChannelIdToConsumerId(ctx, t.ChannelId); ok {
				ids = append(ids, id)
			}
			kind = "handshake"
		}
	}
	return ids, kind
}

func (m *monC13) consumerOfChannel(port, channel string) (string, bool) {
	w := m.w
	if port == ccv.ProviderPortID {
		// the binding may have been deleted by this very block: ask the relayer's links too
		if id, ok := w.P.PApp.ProviderKeeper.GetChannelIdToConsumerId(w.P.Ctx(), channel); ok {
			return id, true
		}
		for id, l := range w.Relay.Links {
			if l.ProvChan == channel {
				return id, true
			}
		}
		return "", false
	}
	if port == "transfer" {
		for id, l := range w.Relay.Links {
			if l.XferProv == channel {
				return id, true
			}
		}
	}
	return "", false
}

func (m *monC13) AfterBlock(c *Chain, req *abci.RequestFinalizeBlock, res *abci.ResponseFinalizeBlock, txs []TxOutcome) {
	if !c.IsProvider || !m.layoutOK || m.begin == nil || m.preEnd == nil || m.postEnd == nil {
		return
	}
	w := m.w
	// ---- transaction segment
	concerned := map[string]bool{}
	kinds := map[string]bool{}
	for _, o := range txs {
		ids, kind := m.consumersOfTx(o)
		for _, id := range ids {
			concerned[id] = true
		}
		if kind != "" && o.OK() {
			kinds[kind] = true
		}
	}
	changes := diffSnap(m.begin, m.preEnd)
	// a staking transaction can remove a validator from x/staking (last shares of an unbonded validator undelegated); the
	// AfterValidatorRemoved hook then deletes that validator's current key assignment on every consumer (prefixes 22 and 23):
	// such deletions are not attributed to the transaction's consumers
	kept := changes[:0:0]
	for _, ch := range changes {
		if ch.New == nil && len(ch.Key) > 0 && (ch.Key[0] == 22 || ch.Key[0] == 23) {
			var prov []byte
			if ch.Key[0] == 23 { // consumer address -> provider address
				prov = ch.Old
			} else if o := ownerOfKey(ch.Key, ch.Old); o.known && len(ch.Key) >= 9+len(o.owner) {
				prov = ch.Key[9+len(o.owner):]
			}
			if len(prov) > 0 {
				if _, err := w.P.PApp.StakingKeeper.GetValidatorByConsAddr(c.Ctx(), sdk.ConsAddress(prov)); err != nil {
					w.Event("C13", "key-assignments-deleted-with-their-removed-validator")
					continue
				}
			}
		}
		kept = append(kept, ch)
	}
	changes = kept
	sum := summarizeDiff(changes)
	w.Eval("C13")
	for id, prefixes := range sum.Owners {
		if !concerned[id] {
			w.Violation("C13", fmt.Sprintf("tx-touched-other-consumer:prefix%d:%s", prefixes[0], strings.Join(keysOf(kinds), "+")), map[string]any{
				"touched": id, "prefixes": prefixes, "concerned": keysOf(concerned), "height": req.Height})
		}
	}
	for id := range sum.QueueIDs {
		if !concerned[id] {
			w.Violation("C13", "tx-moved-other-consumer-in-time-queue:"+strings.Join(keysOf(kinds), "+"), map[string]any{"touched": id, "concerned": keysOf(concerned), "height": req.Height})
		}
	}
	if len(concerned) == 1 && len(sum.Owners) > 0 {
		var a string
		for id := range concerned {
			a = id
		}
		// prefix relation with the other existing ids (1 vs 10, ...)
		rel := "none"
		n := m.countConsumers()
		for i := 0; i < n; i++ {
			b := fmt.Sprint(i)
			if b != a && (strings.HasPrefix(b, a) || strings.HasPrefix(a, b)) {
				rel = "prefix-related-id-exists"
				break
			}
		}
		w.Event("C13", "single-consumer-blocks")
		w.Case("C13", fmt.Sprintf("tx kind=%s phase=%s %s", strings.Join(keysOf(kinds), "+"), w.Phase(a), rel))
		w.Sample("C13", map[string]any{"height": req.Height, "consumer": a, "kinds": keysOf(kinds), "keys_changed": len(changes), "other_consumers": n - 1})
	}
	// ---- EndBlock pruning is per consumer: an entry of a consumer's key index (prefix 23) disappears in EndBlock only together
	// with one of that consumer's own due prune entries (prefix 41) listing the address, or with its validator's removal
	{
		ech := diffSnap(m.preEnd, m.postEnd)
		consumed := map[string]map[string]bool{}
		for _, ch := range ech {
			if len(ch.Key) > 0 && ch.Key[0] == 41 && ch.New == nil {
				o := ownerOfKey(ch.Key, ch.Old)
				var al providertypes.AddressList
				if o.known && al.Unmarshal(ch.Old) == nil {
					if consumed[o.owner] == nil {
						consumed[o.owner] = map[string]bool{}
					}
					for _, a := range al.Addresses {
						consumed[o.owner][consHex(a)] = true
					}
				}
			}
		}
		// ... and a consumed prune entry takes the listed addresses out of that same consumer's index
		for id, set := range consumed {
			for a := range set {
				w.Eval("C13")
				key := providertypes.ValidatorsByConsumerAddrKey(id, providertypes.NewConsumerConsAddress(hexToBytes(a)))
				if _, still := m.postEnd[string(key)]; still {
					w.Violation("C13", "prune-entry-consumed-but-index-entry-of-that-consumer-kept", map[string]any{"consumer": id, "address": a, "height": req.Height})
				}
			}
		}
		for _, ch := range ech {
			if len(ch.Key) == 0 || ch.Key[0] != 23 || ch.New != nil {
				continue
			}
			o := ownerOfKey(ch.Key, ch.Old)
			if !o.known || len(ch.Key) < 9+len(o.owner) {
				continue
			}
			ca := ch.Key[9+len(o.owner):]
			w.Eval("C13")
			switch {
			case consumed[o.owner][consHex(ca)]:
				w.Event("C13", "index-entries-pruned-with-their-consumers-own-prune-entry")
			default:
				if _, err := w.P.PApp.StakingKeeper.GetValidatorByConsAddr(c.Ctx(), sdk.ConsAddress(ch.Old)); err != nil {
					w.Event("C13", "key-assignments-deleted-with-their-removed-validator")
					continue
				}
				var others []string
				for id, set := range consumed {
					if set[consHex(ca)] {
						others = append(others, id)
					}
				}
				w.Violation("C13", "key-index-entry-pruned-without-own-prune-entry", map[string]any{"consumer": o.owner, "address": consHex(ca), "height": req.Height,
					"prune_entries_consumed_of": others})
			}
		}
	}
	// ---- EndBlock segment of non-epoch blocks: only governance-executed updates, pruning and validator removal may touch consumers
	if !m.epoch {
		govConcerned := map[string]bool{}
		for _, ev := range res.Events {
			if ev.Type == providertypes.EventTypeUpdateConsumer || ev.Type == providertypes.EventTypeCreateConsumer || ev.Type == providertypes.EventTypeRemoveConsumer {
				for _, a := range ev.Attributes {
					if a.Key == providertypes.AttributeConsumerId {
						govConcerned[a.Value] = true
					}
				}
			}
		}
		esum := summarizeDiff(diffSnap(m.preEnd, m.postEnd))
		w.Eval("C13")
		for id, prefixes := range esum.Owners {
			if govConcerned[id] {
				continue
			}
			for _, p := range prefixes {
				if p == 22 || p == 23 || p == 41 {
					continue
				}
				w.Violation("C13", fmt.Sprintf("non-epoch-endblock-touched-consumer:prefix%d", p), map[string]any{"consumer": id, "height": req.Height})
			}
		}
	}
	m.prevEnd = m.postEnd
}

func readQueueSnap(s StoreSnap, prefix byte) ([]string, error) {
	var keys []string
	for k := range s {
		if len(k) > 0 && k[0] == prefix {
			keys = append(keys, k)
		}
	}
	sort.Strings(keys)
	var out []string
	for _, k := range keys {
		ts, err := providertypes.ParseTime(prefix, []byte(k))
		if err != nil {
			return nil, err
		}
		var ids providertypes.ConsumerIds
		_ = ids.Unmarshal(s[k])
		out = append(out, fmt.Sprintf("%s:%v", ts.Format(time.RFC3339Nano), ids.Ids))
	}
	return out, nil
}
