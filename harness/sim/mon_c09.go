package sim

import (
	"bytes"
	"fmt"
	"time"

	abci "github.com/cometbft/cometbft/abci/types"

	channeltypes "github.com/cosmos/ibc-go/v10/modules/core/04-channel/types"

	ibcprovider "github.com/cosmos/interchain-security/v7/x/ccv/provider"
	ccv "github.com/cosmos/interchain-security/v7/x/ccv/types"
)

// consumer-side automaton of C09:  Idle --send S--> Waiting --ack handled/v1--> Idle
//
//	Waiting --ack bounced--> Backoff --send S (after delay)--> Waiting
type c09state struct {
	state    string // idle | waiting | backoff
	inFlight []byte // data of the slash packet in flight / bounced
	sendTime time.Time
	sent     int // distinct slash packets sent (retries excluded)
	retries  int
	handled  int
	bounced  int
}

type monC09c struct {
	w  *World
	st map[string]*c09state
}

func init() {
	registerMonitor(func(w *World) Monitor { return &monC09c{w: w, st: map[string]*c09state{}} })
}

func (m *monC09c) Name() string { return "C09c" }

func (m *monC09c) AfterBlock(c *Chain, req *abci.RequestFinalizeBlock, res *abci.ResponseFinalizeBlock, txs []TxOutcome) {
	if c.IsProvider {
		return
	}
	w := m.w
	id := c.ConsumerID
	s := m.st[id]
	if s == nil {
		s = &c09state{state: "idle"}
		m.st[id] = s
	}
	ck := c.CApp.ConsumerKeeper
	// the retry delay as configured in the consumer's parameters (read from the stored parameters, not through the getter the
	// sending logic uses)
	delay := ck.GetConsumerParams(c.Ctx()).RetryDelayPeriod
	if w.Cfg.RetryDelay > 0 && delay != w.Cfg.RetryDelay {
		w.Violation("C09", "stored-retry-delay-differs-from-genesis", map[string]any{"consumer": id, "stored": delay.String(), "genesis": w.Cfg.RetryDelay.String()})
	}
	// acknowledgements delivered in this block (txs run before EndBlock, where packets are sent)
	for _, o := range txs {
		if !o.OK() {
			continue
		}
		for _, msg := range o.Spec.Msgs {
			a, ok := msg.(*channeltypes.MsgAcknowledgement)
			if !ok || a.Packet.SourcePort != ccv.ConsumerPortID {
				continue
			}
			cp, err := ibcprovider.UnmarshalConsumerPacketData(a.Packet.Data)
			if err != nil || cp.Type != ccv.SlashPacket {
				continue
			}
			result, isErr, okd := decodeAck(a.Acknowledgement)
			if !okd {
				continue
			}
			w.Eval("C09")
			if s.state != "waiting" || !bytes.Equal(s.inFlight, a.Packet.Data) {
				w.Violation("C09", "ack-for-packet-not-in-flight", map[string]any{"consumer": id, "state": s.state})
			}
			switch {
			case isErr:
				s.state = "closed"
			case string(result) == string(ccv.SlashPacketBouncedResult):
				s.state = "backoff"
				s.bounced++
				w.Event("C09", "consumer-bounce-acks")
				w.Case("C09", "automaton:waiting->backoff")
			default:
				s.state = "idle"
				s.handled++
				s.inFlight = nil
				w.Event("C09", "consumer-handled-acks")
				w.Case("C09", "automaton:waiting->idle")
			}
		}
	}
	// packets sent in this block's EndBlock
	now := req.Time
	for _, p := range parseSent(res.Events) {
		if p.SourcePort != ccv.ConsumerPortID {
			continue
		}
		cp, err := ibcprovider.UnmarshalConsumerPacketData(p.Data)
		if err != nil {
			continue
		}
		w.Eval("C09")
		isSlash := cp.Type == ccv.SlashPacket
		switch s.state {
		case "idle":
			if isSlash {
				s.state, s.inFlight, s.sendTime = "waiting", p.Data, now
				s.sent++
				w.Event("C09", "consumer-slash-sends")
				w.Case("C09", "automaton:idle->waiting")
			}
		case "waiting":
			w.Violation("C09", "packet-sent-while-slash-packet-in-flight", map[string]any{"consumer": id, "height": req.Height, "slash": isSlash})
		case "backoff":
			if !isSlash || !bytes.Equal(p.Data, s.inFlight) {
				w.Violation("C09", "other-packet-sent-while-bounced-packet-pending", map[string]any{"consumer": id, "height": req.Height, "slash": isSlash})
				break
			}
			if !now.After(s.sendTime.Add(delay)) {
				w.Violation("C09", "retry-sooner-than-delay", map[string]any{"consumer": id, "height": req.Height, "sent": s.sendTime.String(), "retry": now.String(), "delay": delay.String()})
			}
			s.state, s.sendTime = "waiting", now
			s.retries++
			w.Event("C09", "consumer-retries")
			w.Case("C09", fmt.Sprintf("automaton:backoff->waiting exact=%v", now.Sub(s.sendTime) == 0))
		}
	}
	// no loss, no duplication: queued slash packets = handled + still pending
	pendingSlash := 0
	for _, pp := range ck.GetPendingPackets(c.Ctx()) {
		if pp.Type == ccv.SlashPacket {
			pendingSlash++
		}
	}
	q := m.w.queuedSlash(id, res)
	if s.state != "closed" {
		w.Eval("C09")
		if q != s.handled+pendingSlash {
			w.Violation("C09", "slash-packet-lost-or-duplicated", map[string]any{"consumer": id, "height": req.Height, "queued": q, "handled": s.handled, "pending": pendingSlash})
		}
	}
}

var queuedByWorld = map[*World]map[string]int{}

// queuedSlash counts the slash packets ever put into the consumer's queue (requests by x/slashing + hostile injections).
func (w *World) queuedSlash(id string, res *abci.ResponseFinalizeBlock) int {
	m, ok := queuedByWorld[w]
	if !ok {
		m = map[string]int{}
		queuedByWorld[w] = m
	}
	for _, ev := range res.Events {
		if ev.Type == "consumer_slash_request" {
			m[id]++
		}
	}
	return m[id] + w.hostileQueued[id]
}
