package sim

import (
	"encoding/json"
	"fmt"
	"strings"
	"time"

	"cosmossdk.io/log"
	"cosmossdk.io/math"

	abci "github.com/cometbft/cometbft/abci/types"

	db "github.com/cosmos/cosmos-db"
	"github.com/cosmos/cosmos-sdk/baseapp"
	simtestutil "github.com/cosmos/cosmos-sdk/testutil/sims"
	sdk "github.com/cosmos/cosmos-sdk/types"
	authtypes "github.com/cosmos/cosmos-sdk/x/auth/types"
	banktypes "github.com/cosmos/cosmos-sdk/x/bank/types"
	slashingtypes "github.com/cosmos/cosmos-sdk/x/slashing/types"

	appConsumer "github.com/cosmos/interchain-security/v7/app/consumer"
	consumertypes "github.com/cosmos/interchain-security/v7/x/ccv/consumer/types"
	ccvtypes "github.com/cosmos/interchain-security/v7/x/ccv/types"
)

// Tick advances the world clock by the default block interval.
func (w *World) Tick() { w.AdvanceTime(w.BlockInterval()) }

func (w *World) BlockInterval() time.Duration { return 5 * time.Second }

// Produce is the single place where blocks are made: it runs the block, feeds the relayer and the monitors.
func (w *World) Produce(c *Chain, specs []TxSpec, opts *BlockOpts) []TxOutcome {
	outs := c.ProduceBlock(specs, opts)
	if c.Halted || c.LastRes == nil {
		return outs
	}
	if !c.IsProvider {
		for _, o := range outs {
			tag := o.Spec.Tag
			if i := strings.IndexByte(tag, ':'); i >= 0 {
				tag = tag[:i]
			}
			if o.OK() {
				w.Event("_ctx", tag+":ok")
			} else if o.Result != nil {
				w.Event("_ctx", fmt.Sprintf("%s:fail:%s/%d", tag, o.Result.Codespace, o.Result.Code))
				w.Infof("consumer %s tx failed %s: %s", c.ID, o.Spec.Tag, o.Result.Log)
			}
		}
	}
	if w.Relay != nil {
		if c.IsProvider {
			w.Relay.observeProviderBlock(c, c.LastRes)
		} else if l := w.Relay.Links[c.ConsumerID]; l != nil {
			w.Relay.observeConsumerBlock(l, c.LastRes)
		}
	}
	for _, m := range w.Mons {
		if bm, ok := m.(BlockMonitor); ok {
			bm.AfterBlock(c, c.LastReq, c.LastRes, outs)
		}
	}
	return outs
}

// BlockMonitor is notified after every committed block of every chain.
type BlockMonitor interface {
	AfterBlock(c *Chain, req *abci.RequestFinalizeBlock, res *abci.ResponseFinalizeBlock, txs []TxOutcome)
}

// ConsumerGenesisTweak lets a world adjust the consumer-side ccv parameters before boot.
type ConsumerGenesisTweak func(g *ccvtypes.ConsumerGenesisState)

// BootConsumer instantiates a real consumer application from the genesis the provider produced at launch.
func (w *World) BootConsumer(consumerID string, pr *Probes, tweak ConsumerGenesisTweak) (*Chain, error) {
	pk := w.P.PApp.ProviderKeeper
	ctx := w.P.Ctx()
	gen, found := pk.GetConsumerGenesis(ctx, consumerID)
	if !found {
		return nil, fmt.Errorf("no consumer genesis for %s", consumerID)
	}
	chainID, err := pk.GetConsumerChainId(ctx, consumerID)
	if err != nil {
		return nil, err
	}
	if tweak != nil {
		tweak(&gen)
	}
	if w.Cfg.TransferTimeout > 0 {
		gen.Params.TransferTimeoutPeriod = w.Cfg.TransferTimeout
	}
	if w.Cfg.RetryDelay > 0 {
		gen.Params.RetryDelayPeriod = w.Cfg.RetryDelay
	}

	encoding := appConsumer.MakeTestEncodingConfig()
	app := appConsumer.New(log.NewNopLogger(), db.NewMemDB(), nil, false, simtestutil.EmptyAppOptions{})
	if pr != nil {
		app.SetBeginBlocker(func(ctx sdk.Context) (sdk.BeginBlock, error) {
			r, err := app.BeginBlocker(ctx)
			if err == nil {
				for _, f := range pr.PostBegin {
					f(ctx)
				}
			}
			return r, err
		})
		app.SetEndBlocker(func(ctx sdk.Context) (sdk.EndBlock, error) {
			for _, f := range pr.PreEnd {
				f(ctx)
			}
			r, err := app.EndBlocker(ctx)
			if err == nil {
				for _, f := range pr.PostEnd {
					f(ctx)
				}
			}
			return r, err
		})
	}
	if err := app.LoadLatestVersion(); err != nil {
		return nil, err
	}
	cdc := encoding.Codec
	genesis := appConsumer.NewDefaultGenesisState(cdc)
	genesis[consumertypes.ModuleName] = cdc.MustMarshalJSON(&gen)

	// accounts: the relayer and a fee payer
	var genAccs []authtypes.GenesisAccount
	var balances []banktypes.Balance
	accts := []*Account{
		NewAccount("relayer@"+consumerID, 0),
		NewAccount("user@"+consumerID, 1),
	}
	for _, a := range accts {
		genAccs = append(genAccs, authtypes.NewBaseAccount(a.Addr, a.Priv.PubKey(), a.AccNum, 0))
		balances = append(balances, banktypes.Balance{Address: a.Addr.String(), Coins: sdk.NewCoins(
			sdk.NewCoin(BondDenom, math.NewInt(1_000_000_000_000_000)),
			sdk.NewCoin("ufee", math.NewIntWithDecimal(1, 30)),
			sdk.NewCoin("uother", math.NewIntWithDecimal(1, 30)),
		)})
	}
	genesis[authtypes.ModuleName] = cdc.MustMarshalJSON(authtypes.NewGenesisState(authtypes.DefaultParams(), genAccs))
	genesis[banktypes.ModuleName] = cdc.MustMarshalJSON(banktypes.NewGenesisState(
		banktypes.DefaultGenesisState().Params, balances, sdk.NewCoins(), []banktypes.Metadata{}, []banktypes.SendEnabled{}))

	var slashingGenesis slashingtypes.GenesisState
	cdc.MustUnmarshalJSON(genesis[slashingtypes.ModuleName], &slashingGenesis)
	slashingGenesis.Params.SignedBlocksWindow = w.Cfg.SignedWindow
	slashingGenesis.Params.MinSignedPerWindow = math.LegacyNewDecWithPrec(5, 1)
	slashingGenesis.Params.DowntimeJailDuration = 10 * time.Second
	genesis[slashingtypes.ModuleName] = cdc.MustMarshalJSON(&slashingGenesis)

	stateBytes, err := json.MarshalIndent(genesis, "", " ")
	if err != nil {
		return nil, err
	}
	baseapp.SetChainID(chainID)(app.GetBaseApp())
	initReq := &abci.RequestInitChain{
		ChainId:         chainID,
		Validators:      []abci.ValidatorUpdate{},
		AppStateBytes:   stateBytes,
		ConsensusParams: simtestutil.DefaultConsensusParams,
		Time:            w.Now,
		InitialHeight:   1,
	}
	var initRes *abci.ResponseInitChain
	func() {
		defer func() {
			if r := recover(); r != nil {
				err = fmt.Errorf("consumer InitChain panic: %v", r)
			}
		}()
		initRes, err = app.InitChain(initReq)
	}()
	if err != nil {
		return nil, err
	}
	c := w.newChain(chainID, app, initRes.Validators)
	c.CApp = app
	c.ConsumerID = consumerID
	c.accountKeep = app.AccountKeeper
	c.Votes = w.Cfg.Votes
	c.relayer = accts[0]
	c.user = accts[1]
	if w.Cfg.Record {
		c.Rec = &ChainRecord{ChainID: chainID, Kind: "consumer", Init: mustMarshal(initReq), InitValidators: initRes.Validators, InitDigest: sha(mustMarshal(initRes))}
	}
	w.Consumers[consumerID] = c
	w.ConsOrder = append(w.ConsOrder, consumerID)

	clientOnProvider, _ := pk.GetConsumerClientId(ctx, consumerID)
	l := &Link{W: w, CID: consumerID, C: c, ProvClient: clientOnProvider}
	w.Relay.Links[consumerID] = l
	w.Relay.Order = append(w.Relay.Order, consumerID)

	// first blocks of the consumer (height 1 and 2), so that a header above the initial height exists
	w.Produce(c, nil, nil)
	w.Tick()
	w.Produce(c, nil, nil)
	if cid, ok := app.ConsumerKeeper.GetProviderClientID(c.Ctx()); ok {
		l.ConsClient = cid
	}
	return c, nil
}
