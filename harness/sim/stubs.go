package sim

type Shadow struct{}
