package sim

import (
	"fmt"

	abci "github.com/cometbft/cometbft/abci/types"

	channeltypes "github.com/cosmos/ibc-go/v10/modules/core/04-channel/types"

	providertypes "github.com/cosmos/interchain-security/v7/x/ccv/provider/types"
)

// monC17: the relations consumer - light client - channel are one to one on the provider at all times.
type monC17 struct{ w *World }

func init() { registerMonitor(func(w *World) Monitor { return &monC17{w: w} }) }

func (m *monC17) Name() string { return "C17" }

// checkBindings reads the four maps from the raw provider store and checks that they are mutual inverses.
func (m *monC17) checkBindings(height int64) {
	w := m.w
	ctx := w.P.Ctx()
	snap := snapStore(ctx, w.P.PApp.GetKey(providertypes.StoreKey))
	fwdClient, revClient := map[string]string{}, map[string]string{}
	fwdChan, revChan := map[string]string{}, map[string]string{}
	for k, v := range snap {
		switch k[0] {
		case 7:
			fwdClient[k[1:]] = string(v)
		case 53:
			revClient[ownerKeyTail(k)] = string(v)
		case 5:
			fwdChan[k[1:]] = string(v)
		case 6:
			revChan[k[1:]] = string(v)
		}
	}
	w.Eval("C17")
	w.EventN("C17", "bindings-checked", int64(len(fwdClient)+len(fwdChan)))
	byClient := map[string]string{}
	for cid, cl := range fwdClient {
		if other, dup := byClient[cl]; dup {
			w.Violation("C17", "two-consumers-bound-to-one-client", map[string]any{"client": cl, "consumers": []string{other, cid}, "height": height})
		}
		byClient[cl] = cid
		if revClient[cl] != cid {
			w.Violation("C17", "client-reverse-index-disagrees", map[string]any{"consumer": cid, "client": cl, "reverse": revClient[cl], "height": height})
		}
	}
	for cl, cid := range revClient {
		if fwdClient[cid] != cl {
			w.Violation("C17", "client-forward-index-disagrees", map[string]any{"consumer": cid, "client": cl, "forward": fwdClient[cid], "height": height})
		}
	}
	byChan := map[string]string{}
	for cid, ch := range fwdChan {
		if other, dup := byChan[ch]; dup {
			w.Violation("C17", "two-consumers-bound-to-one-channel", map[string]any{"channel": ch, "consumers": []string{other, cid}, "height": height})
		}
		byChan[ch] = cid
		if revChan[ch] != cid {
			w.Violation("C17", "channel-reverse-index-disagrees", map[string]any{"consumer": cid, "channel": ch, "reverse": revChan[ch], "height": height})
		}
		// the channel is built on the consumer's own client
		if conn, _, err := w.P.PApp.IBCKeeper.ChannelKeeper.GetChannelConnection(ctx, "provider", ch); err == nil {
			if c, ok := w.P.PApp.IBCKeeper.ConnectionKeeper.GetConnection(ctx, conn); ok && c.ClientId != fwdClient[cid] {
				w.Violation("C17", "channel-not-on-the-consumers-client", map[string]any{"consumer": cid, "channel": ch, "channel_client": c.ClientId, "bound_client": fwdClient[cid]})
			}
		}
	}
	for ch, cid := range revChan {
		if fwdChan[cid] != ch {
			w.Violation("C17", "channel-forward-index-disagrees", map[string]any{"consumer": cid, "channel": ch, "forward": fwdChan[cid], "height": height})
		}
	}
	// at most one OPEN channel on the provider port per consumer (attributed through the client it is built on)
	openBy := map[string][]string{}
	for _, ic := range w.P.PApp.IBCKeeper.ChannelKeeper.GetAllChannels(ctx) {
		if ic.PortId != "provider" || ic.State != channeltypes.OPEN || len(ic.ConnectionHops) != 1 {
			continue
		}
		if c, ok := w.P.PApp.IBCKeeper.ConnectionKeeper.GetConnection(ctx, ic.ConnectionHops[0]); ok {
			if cid, ok := revClient[c.ClientId]; ok {
				openBy[cid] = append(openBy[cid], ic.ChannelId)
			} else if st := clientStatus(w.P, c.ClientId); st != "Active" {
				// left over from a removed consumer whose client had expired: IBC core refuses to close such a channel, and
				// nothing can be received or sent on it any more
				w.Event("C17", "dead-open-channel-of-removed-consumer-on-"+st+"-client")
			} else {
				w.Violation("C17", "open-ccv-channel-on-unbound-client", map[string]any{"channel": ic.ChannelId, "client": c.ClientId, "height": height})
			}
		}
	}
	for cid, chs := range openBy {
		if len(chs) > 1 {
			w.Violation("C17", "several-open-ccv-channels-for-one-consumer", map[string]any{"consumer": cid, "channels": chs, "height": height})
		}
	}
	if len(fwdChan) > 0 {
		w.Case("C17", fmt.Sprintf("standing clients=%s channels=%s", bucket(len(fwdClient)), bucket(len(fwdChan))))
	}
}

// ownerKeyTail extracts the id of a `prefix | len(8) | id` key.
func ownerKeyTail(k string) string {
	if len(k) < 9 {
		return ""
	}
	return k[9:]
}

func (m *monC17) AfterBlock(c *Chain, req *abci.RequestFinalizeBlock, res *abci.ResponseFinalizeBlock, txs []TxOutcome) {
	if c.IsProvider {
		m.checkBindings(req.Height)
		return
	}
	// consumer side: the adopted provider channel is on the recorded provider client
	ck := c.CApp.ConsumerKeeper
	ctx := c.Ctx()
	ch, ok := ck.GetProviderChannel(ctx)
	if !ok {
		return
	}
	m.w.Eval("C17")
	cl, _ := ck.GetProviderClientID(ctx)
	if conn, _, err := c.CApp.IBCKeeper.ChannelKeeper.GetChannelConnection(ctx, "consumer", ch); err == nil {
		if cc, ok := c.CApp.IBCKeeper.ConnectionKeeper.GetConnection(ctx, conn); ok && cc.ClientId != cl {
			m.w.Violation("C17", "consumer-adopted-channel-over-foreign-client", map[string]any{"consumer": c.ConsumerID, "channel": ch, "client": cc.ClientId, "provider_client": cl})
		}
	}
}
