package sim

import (
	"fmt"
	"sort"
	"time"

	"cosmossdk.io/math"

	abci "github.com/cometbft/cometbft/abci/types"

	sdk "github.com/cosmos/cosmos-sdk/types"
	slashingtypes "github.com/cosmos/cosmos-sdk/x/slashing/types"
	stakingtypes "github.com/cosmos/cosmos-sdk/x/staking/types"

	channeltypes "github.com/cosmos/ibc-go/v10/modules/core/04-channel/types"

	ibcprovider "github.com/cosmos/interchain-security/v7/x/ccv/provider"
	providertypes "github.com/cosmos/interchain-security/v7/x/ccv/provider/types"
	ccv "github.com/cosmos/interchain-security/v7/x/ccv/types"
)

// vState is the punishment-relevant state of a provider validator.
type vState struct {
	Oper        string
	Cons        string
	Status      stakingtypes.BondStatus
	Jailed      bool
	Tombstoned  bool
	JailedUntil time.Time
	Tokens      math.Int
	LastPower   int64
	Found       bool
}

// punishSnap is the provider state relevant for slash packets, read at a probe point.
type punishSnap struct {
	Vals      map[string]vState // by provider cons hex
	Meter     math.Int
	Allowance math.Int
	Candidate time.Time
	VscID     uint64
	Phase     map[string]phase
	InSet     map[string]map[string]bool // consumer -> provider cons hex -> member
	SlashAcks map[string][]string
	Infr      map[string]providertypes.InfractionParameters
	Time      time.Time
	KeyMap    map[string]string // consumer|consumer cons hex -> provider cons hex
}

func (w *World) readVStates(ctx sdk.Context) map[string]vState {
	out := map[string]vState{}
	sl := w.P.PApp.SlashingKeeper
	for _, sv := range w.StakingSnapshot(ctx) {
		st := vState{Oper: sv.Oper, Cons: consHex(sv.ConsAddr), Status: sv.Status, Jailed: sv.Jailed, Tokens: sv.Tokens, LastPower: sv.LastPower, Found: true}
		st.Tombstoned = sl.IsTombstoned(ctx, sv.ConsAddr)
		if si, err := sl.GetValidatorSigningInfo(ctx, sv.ConsAddr); err == nil {
			st.JailedUntil = si.JailedUntil
		}
		out[st.Cons] = st
	}
	return out
}

func (w *World) readPunishSnap(ctx sdk.Context) *punishSnap {
	pk := w.P.PApp.ProviderKeeper
	s := &punishSnap{Vals: w.readVStates(ctx), Meter: pk.GetSlashMeter(ctx), Candidate: pk.GetSlashMeterReplenishTimeCandidate(ctx),
		VscID: pk.GetValidatorSetUpdateId(ctx), Phase: map[string]phase{}, InSet: map[string]map[string]bool{},
		SlashAcks: map[string][]string{}, Infr: map[string]providertypes.InfractionParameters{}, Time: ctx.BlockTime()}
	s.Allowance = w.expectedAllowance(ctx)
	s.KeyMap = map[string]string{}
	for _, e := range pk.GetAllValidatorsByConsumerAddr(ctx, nil) {
		s.KeyMap[e.ChainId+"|"+consHex(e.ConsumerAddr)] = consHex(e.ProviderAddr)
	}
	for _, id := range pk.GetAllConsumerIds(ctx) {
		ph := pk.GetConsumerPhase(ctx, id)
		s.Phase[id] = ph
		if ph == phLaunch || ph == phStopped {
			in := map[string]bool{}
			if vs, err := pk.GetConsumerValSet(ctx, id); err == nil {
				for _, v := range vs {
					in[consHex(v.ProviderConsAddr)] = true
				}
			}
			s.InSet[id] = in
			s.SlashAcks[id] = pk.GetSlashAcks(ctx, id)
			if ip, err := pk.GetInfractionParameters(ctx, id); err == nil {
				s.Infr[id] = ip
			}
		}
	}
	return s
}

// expectedAllowance = max(1, round(fraction * total provider power)) computed from parameters and staking state.
func (w *World) expectedAllowance(ctx sdk.Context) math.Int {
	pk := w.P.PApp.ProviderKeeper
	frac := math.LegacyMustNewDecFromStr(pk.GetSlashMeterReplenishFraction(ctx))
	total, err := w.P.PApp.StakingKeeper.GetLastTotalPower(ctx)
	if err != nil {
		total = math.ZeroInt()
	}
	a := math.NewInt(frac.MulInt(total).RoundInt64())
	if a.IsZero() {
		a = math.OneInt()
	}
	return a
}

// monC08 judges every slash packet the provider receives (C08), the slash meter (C09, provider half)
// and the acknowledgement round trip.
type monC08 struct {
	w       *World
	begin   *punishSnap // at PostBegin
	preEnd  *punishSnap // after all txs
	prevEnd *punishSnap // PostEnd of the previous block
	// pendingAcks[consumer] = consumer addresses (bech32) the provider owes an acknowledgement for
	pendingAcks map[string][]string
	// meter log for the window bound
	log           []meterObs
	lastReplenish time.Time
	haveReplenish bool
	validated     map[string]bool
}

type meterObs struct {
	Height      int64
	Time        time.Time
	MeterBegin  math.Int // after BeginBlock
	Replenished math.Int // amount added in this BeginBlock (0 if none)
	Jailed      int64    // voting power jailed on behalf of consumers in this block
	MaxSingle   int64
}

func init() {
	registerMonitor(func(w *World) Monitor {
		return &monC08{w: w, pendingAcks: map[string][]string{}, validated: map[string]bool{}}
	})
}

func (m *monC08) Name() string { return "C08/C09p" }

func (m *monC08) PostBegin(ctx sdk.Context) {
	w := m.w
	s := w.readPunishSnap(ctx)
	m.begin = s
	// ---- C09 provider half: meter after BeginBlock
	w.Eval("C09")
	if s.Meter.GT(s.Allowance) {
		w.Violation("C09", "meter-above-allowance-after-beginblock", map[string]any{"height": ctx.BlockHeight(), "meter": s.Meter.String(), "allowance": s.Allowance.String()})
	}
	obs := meterObs{Height: ctx.BlockHeight(), Time: ctx.BlockTime(), MeterBegin: s.Meter, Replenished: math.ZeroInt()}
	if m.prevEnd != nil {
		delta := s.Meter.Sub(m.prevEnd.Meter)
		period := w.P.PApp.ProviderKeeper.GetSlashMeterReplenishPeriod(ctx)
		if delta.IsPositive() {
			// a replenishment happened
			w.Event("C09", "replenishments")
			obs.Replenished = delta
			if ctx.BlockTime().Before(m.prevEnd.Candidate) {
				w.Violation("C09", "replenished-before-candidate-time", map[string]any{"height": ctx.BlockHeight(), "time": ctx.BlockTime().String(), "candidate": m.prevEnd.Candidate.String()})
			}
			if delta.GT(s.Allowance) {
				w.Violation("C09", "replenished-more-than-allowance", map[string]any{"height": ctx.BlockHeight(), "delta": delta.String(), "allowance": s.Allowance.String()})
			}
			if m.haveReplenish && ctx.BlockTime().Sub(m.lastReplenish) < period {
				w.Violation("C09", "replenishments-closer-than-period", map[string]any{"height": ctx.BlockHeight(), "gap": ctx.BlockTime().Sub(m.lastReplenish).String(), "period": period.String()})
			}
			m.lastReplenish, m.haveReplenish = ctx.BlockTime(), true
			w.Case("C09", fmt.Sprintf("replenish from-negative=%v to-full=%v", m.prevEnd.Meter.IsNegative(), s.Meter.Equal(s.Allowance)))
		} else if delta.IsNegative() {
			// only the clamp to a shrunken allowance may lower the meter in BeginBlock
			w.Event("C09", "clamps")
			if !s.Meter.Equal(s.Allowance) {
				w.Violation("C09", "meter-decreased-in-beginblock-without-clamp", map[string]any{"height": ctx.BlockHeight(), "before": m.prevEnd.Meter.String(), "after": s.Meter.String(), "allowance": s.Allowance.String()})
			}
			w.Case("C09", "clamp-to-lower-allowance")
		} else if !ctx.BlockTime().Before(m.prevEnd.Candidate) && m.prevEnd.Meter.LT(s.Allowance) && m.prevEnd.Meter.LT(m.prevEnd.Allowance) {
			// due, not full, and nothing was added
			w.Violation("C09", "replenishment-due-but-not-performed", map[string]any{"height": ctx.BlockHeight(), "meter": s.Meter.String(), "candidate": m.prevEnd.Candidate.String(), "time": ctx.BlockTime().String()})
		}
	}
	m.log = append(m.log, obs)
}

func (m *monC08) PreEnd(ctx sdk.Context) { m.preEnd = m.w.readPunishSnap(ctx) }

func (m *monC08) PostEnd(ctx sdk.Context) {
	w := m.w
	snap := w.readPunishSnap(ctx)
	if w.verbose && m.preEnd != nil {
		for id, a := range snap.SlashAcks {
			if !sameStrings(a, m.preEnd.SlashAcks[id]) {
				w.Infof("slash acks of %s changed in EndBlock h=%d: %v -> %v (pending vsc %d)", id, ctx.BlockHeight(), m.preEnd.SlashAcks[id], a, len(w.P.PApp.ProviderKeeper.GetPendingVSCPackets(ctx, id)))
			}
		}
		for id, a := range m.preEnd.SlashAcks {
			if m.begin != nil && !sameStrings(a, m.begin.SlashAcks[id]) {
				w.Infof("slash acks of %s changed in txs h=%d: %v -> %v", id, ctx.BlockHeight(), m.begin.SlashAcks[id], a)
			}
		}
	}
	m.prevEnd = snap
}

type slashJudgement struct {
	consumer string
	data     ccv.SlashPacketData
	ack      []byte
	ackErr   bool
}

func decodeAck(bz []byte) (result []byte, isErr bool, ok bool) {
	var a channeltypes.Acknowledgement
	if err := channeltypes.SubModuleCdc.UnmarshalJSON(bz, &a); err != nil {
		return nil, false, false
	}
	if !a.Success() {
		return nil, true, true
	}
	return a.GetResult(), false, true
}

func (m *monC08) AfterBlock(c *Chain, req *abci.RequestFinalizeBlock, res *abci.ResponseFinalizeBlock, txs []TxOutcome) {
	if !c.IsProvider {
		m.afterConsumer(c, req, res, txs)
		return
	}
	w := m.w
	if m.begin == nil || m.preEnd == nil {
		return
	}
	_ = w.P.PApp.ProviderKeeper
	ctx := c.Ctx()
	b := m.begin
	// sequential in-block model
	meter := b.Meter
	jailedNow := map[string]bool{}
	stoppedNow := map[string]bool{}
	expectJail := map[string]jailExp{}
	userOps := false
	slashPackets := 0
	var jailedPower, maxSingle int64
	keyTouched := map[string]bool{} // consumers whose key mapping may have changed earlier in this block
	imprecise := map[string]bool{}
	meterUnknown := false
	// validators whose staking state (status, jailed flag, power) may have been changed by a transaction earlier in this
	// block (e.g. an operator undelegating below the minimum self-delegation is jailed by x/staking): the pre-block
	// snapshot is then not what the slash handler saw
	stakeTouched := map[string]bool{}
	touch := func(valoper string) {
		if v := w.valByOper(valoper); v != nil {
			stakeTouched[consHex(v.ConsAddr())] = true
		}
	}
	for _, o := range txs {
		isRelay := len(o.Spec.Tag) >= 5 && (o.Spec.Tag[:5] == "relay" || o.Spec.Tag == "keepalive")
		if !isRelay && o.Spec.Tag != "vote" {
			userOps = true
		}
		if !o.OK() {
			continue
		}
		for _, msg := range o.Spec.Msgs {
			switch t := msg.(type) {
			case *channeltypes.MsgTimeout:
				if t.Packet.SourcePort == ccv.ProviderPortID {
					if id, ok := m.consumerByChannel(ctx, t.Packet.SourceChannel, b); ok {
						stoppedNow[id] = true
					}
				}
			case *channeltypes.MsgAcknowledgement:
				if t.Packet.SourcePort == ccv.ProviderPortID {
					if _, isErr, ok := decodeAck(t.Acknowledgement); ok && isErr {
						if id, ok := m.consumerByChannel(ctx, t.Packet.SourceChannel, b); ok {
							stoppedNow[id] = true
						}
					}
				}
			case *providertypes.MsgRemoveConsumer:
				stoppedNow[t.ConsumerId] = true
			case *stakingtypes.MsgUndelegate:
				touch(t.ValidatorAddress)
			case *stakingtypes.MsgBeginRedelegate:
				touch(t.ValidatorSrcAddress)
			case *slashingtypes.MsgUnjail:
				touch(t.ValidatorAddr)
			case *stakingtypes.MsgCreateValidator:
				touch(t.ValidatorAddress)
			case *providertypes.MsgAssignConsumerKey:
				keyTouched[t.ConsumerId] = true
			case *providertypes.MsgOptIn:
				if t.ConsumerKey != "" {
					keyTouched[t.ConsumerId] = true
				}
			case *channeltypes.MsgRecvPacket:
				if t.Packet.DestinationPort != ccv.ProviderPortID {
					continue
				}
				cp, err := ibcprovider.UnmarshalConsumerPacketData(t.Packet.Data)
				if err != nil || cp.Type != ccv.SlashPacket {
					continue
				}
				data := *cp.GetSlashPacketData()
				id, ok := m.consumerByChannel(ctx, t.Packet.DestinationChannel, b)
				if !ok {
					continue
				}
				acks := parseAcks(o.Result.Events)
				if len(acks) == 0 {
					w.Violation("C08", "slash-packet-without-acknowledgement", map[string]any{"consumer": id})
					continue
				}
				result, isErr, okd := decodeAck(acks[0].Ack)
				if !okd {
					continue
				}
				slashPackets++
				w.Eval("C08")
				w.Event("C08", "slash-packets-judged")
				consAddr := providertypes.NewConsumerConsAddress(data.Validator.Address)
				// --- expected outcome, from the statement
				// (0) ids the provider never issued
				if data.ValsetUpdateId > b.VscID {
					w.Event("C12", "never-issued-id-packets")
					w.Case("C12", "never-issued-id")
					if !isErr {
						w.Violation("C12", "never-issued-id-not-answered-with-error-ack", map[string]any{"consumer": id, "vsc": data.ValsetUpdateId, "current": b.VscID})
					}
					continue
				}
				if isErr {
					// id 0 before the channel-opening height is known is the only other legitimate error
					w.Violation("C08", "unexpected-error-ack", map[string]any{"consumer": id, "vsc": data.ValsetUpdateId, "current": b.VscID})
					continue
				}
				if data.Infraction == stakingtypes.Infraction_INFRACTION_DOUBLE_SIGN {
					w.Event("C08", "double-sign-packets")
					w.Case("C08", "double-sign-packet")
					if string(result) != string(ccv.V1Result) {
						w.Violation("C08", "double-sign-packet-ack", map[string]any{"consumer": id, "ack": result})
					}
					continue // "nobody punished" is judged by the whole-block comparison below
				}
				// resolve the provider validator (mapping as stored before the block; C06 judges the mapping itself)
				pc, mapped := b.KeyMap[id+"|"+consHex(data.Validator.Address)]
				if !mapped {
					pc = consHex(data.Validator.Address)
				}
				if keyTouched[id] || stakeTouched[pc] {
					imprecise[id] = true
					meterUnknown = true // this packet may or may not have jailed somebody: the meter and "already jailed" are unknown from here on
					if stakeTouched[pc] {
						w.Event("C08", "packets-for-validator-touched-by-staking-tx-in-same-block")
					}
					continue
				}
				vs, found := b.Vals[pc]
				launched := b.Phase[id] == phLaunch && !stoppedNow[id]
				inSet := b.InSet[id][pc]
				jailed := vs.Jailed || jailedNow[pc]
				row := ""
				ackStr := consAddr.String()
				switch {
				case !launched:
					row = "not-launched"
					m.expectAck(id, ackStr)
					m.wantAck(w, id, result, ccv.SlashPacketHandledResult, row)
				case !inSet:
					row = "not-in-set"
					m.expectAck(id, ackStr)
					m.wantAck(w, id, result, ccv.SlashPacketHandledResult, row)
				case meterUnknown:
					// an earlier packet of this block was judged imprecisely: admission and the jailed flag cannot be predicted
					imprecise[id] = true
					w.Event("C08", "packets-after-an-imprecise-one-in-the-same-block")
					continue
				case meter.IsNegative():
					row = "bounced"
					w.Event("C09", "bounces")
					m.wantAck(w, id, result, ccv.SlashPacketBouncedResult, row)
				default:
					// admitted by the throttle
					if string(result) == string(ccv.SlashPacketBouncedResult) {
						w.Violation("C09", "bounced-while-meter-non-negative", map[string]any{"consumer": id, "meter": meter.String()})
					}
					eff := int64(0)
					if found && !jailed {
						eff = vs.LastPower
					}
					meter = meter.Sub(math.NewInt(eff))
					w.Event("C09", "admitted-packets")
					m.wantAck(w, id, result, ccv.SlashPacketHandledResult, "admitted")
					switch {
					case !found:
						row = "unknown-validator"
					case vs.Status == stakingtypes.Unbonded:
						row = "unbonded"
					case vs.Tombstoned:
						row = "tombstoned"
					case jailed:
						row = "already-jailed"
						m.expectAck(id, ackStr)
					default:
						row = "jail"
						m.expectAck(id, ackStr)
						jailedNow[pc] = true
						jailedPower += vs.LastPower
						if vs.LastPower > maxSingle {
							maxSingle = vs.LastPower
						}
						ip := b.Infr[id]
						expectJail[pc] = jailExp{consumer: id, until: b.Time.Add(ip.Downtime.JailDuration), fraction: ip.Downtime.SlashFraction, power: data.Validator.Power, vsc: data.ValsetUpdateId}
					}
				}
				w.Infof("slash packet judged: consumer=%s row=%s reported=%s (%s) vsc=%d height=%d ackres=%v", id, row, w.keyName(data.Validator.Address), consAddr.String(), data.ValsetUpdateId, req.Height, result)
				w.Event("C08", "row:"+row)
				key := fmt.Sprintf("row=%s status=%s", row, vs.Status)
				if !found {
					key = "row=" + row
				}
				w.Case("C08", key)
				w.Sample("C08", map[string]any{"consumer": id, "row": row, "validator": w.valNameHex(pc), "reported": w.keyName(data.Validator.Address), "vsc": data.ValsetUpdateId, "meter_before": meter.String()})
			}
		}
	}
	// record for the window bound
	if n := len(m.log); n > 0 {
		m.log[n-1].Jailed = jailedPower
		m.log[n-1].MaxSingle = maxSingle
	}
	if slashPackets == 0 || len(imprecise) > 0 {
		// still compare slash acks below
	} else {
		// meter after all txs
		w.Eval("C09")
		if !m.preEnd.Meter.Equal(meter) {
			w.Violation("C09", "meter-delta-differs-from-jailed-power", map[string]any{"height": req.Height, "meter_begin": b.Meter.String(), "expected_after": meter.String(), "observed_after": m.preEnd.Meter.String()})
		}
		// a slash also burns the stake the punished validator's delegators redelegated away after the infraction: the
		// destinations of such redelegations may lose tokens (nothing else about them may change)
		redelDst := map[string]bool{}
		for pc := range expectJail {
			if src, ok := b.Vals[pc]; ok {
				if sa, err := sdk.ValAddressFromBech32(src.Oper); err == nil {
					if reds, err := w.P.PApp.StakingKeeper.GetRedelegationsFromSrcValidator(ctx, sa); err == nil {
						for _, r := range reds {
							for _, st := range b.Vals {
								if st.Oper == r.ValidatorDstAddress {
									redelDst[st.Cons] = true
								}
							}
						}
					}
				}
			}
		}
		// punishments: exactly the expected validators, with the consumer's parameters
		for pc, after := range m.preEnd.Vals {
			before, had := b.Vals[pc]
			exp, shouldJail := expectJail[pc]
			if shouldJail {
				w.Event("C08", "jailings")
				if !after.Jailed {
					w.Violation("C08", "validator-not-jailed", map[string]any{"consumer": exp.consumer, "val": w.valNameHex(pc)})
				}
				if !after.JailedUntil.Equal(exp.until) {
					w.Violation("C20", "downtime-jail-duration-not-from-consumer-parameters", map[string]any{"consumer": exp.consumer, "val": w.valNameHex(pc), "until": after.JailedUntil.String(), "expected": exp.until.String()})
				}
				m.checkSlashCall(pc, exp)
				continue
			}
			if !had || userOps {
				continue
			}
			tokensOK := after.Tokens.Equal(before.Tokens)
			if !tokensOK && redelDst[pc] && after.Tokens.LT(before.Tokens) {
				tokensOK = true
				w.Event("C08", "redelegation-destinations-of-a-jailed-validator-lost-tokens")
			}
			if after.Jailed != before.Jailed || after.Tombstoned != before.Tombstoned || !after.JailedUntil.Equal(before.JailedUntil) || !tokensOK {
				w.Violation("C08", "other-validator-affected", map[string]any{"val": w.valNameHex(pc), "jailed": []bool{before.Jailed, after.Jailed}, "tokens": []string{before.Tokens.String(), after.Tokens.String()}})
			}
		}
		// calls into staking/slashing must be exactly those for the expected jailings
		for _, j := range w.Calls.Jails {
			if _, ok := expectJail[j]; !ok && !userOps {
				w.Violation("C08", "unexpected-jail-call", map[string]any{"val": w.valNameHex(j)})
			}
		}
	}
	for id := range imprecise {
		m.pendingAcks[id] = append([]string(nil), m.preEnd.SlashAcks[id]...)
		w.Event("C08", "blocks-judged-imprecisely")
	}
	// slash acks the provider holds must be what it owes
	for id, owed := range m.pendingAcks {
		if m.preEnd.Phase[id] != phLaunch && m.preEnd.Phase[id] != phStopped {
			continue
		}
		got := m.preEnd.SlashAcks[id]
		w.Eval("C08")
		if !sameStrings(got, owed) {
			w.Violation("C08", "slash-acks-held-differ-from-owed", map[string]any{"consumer": id, "held": got, "owed": owed})
		}
	}
	// acknowledgements travel with the next validator-set update
	m.checkVSCAcks(c, res)
}

type jailExp struct {
	consumer string
	until    time.Time
	fraction math.LegacyDec
	power    int64
	vsc      uint64
}

func (m *monC08) checkSlashCall(pc string, exp jailExp) {
	w := m.w
	for _, s := range w.Calls.Slashes {
		if s.Cons != pc {
			continue
		}
		w.Eval("C20")
		w.Event("C20", "downtime-punishments-compared")
		if !s.Fraction.Equal(exp.fraction) {
			w.Violation("C20", "downtime-slash-fraction-not-from-consumer-parameters", map[string]any{"consumer": exp.consumer, "val": w.valNameHex(pc), "used": s.Fraction.String(), "in_force": exp.fraction.String()})
		}
		if s.Infraction != stakingtypes.Infraction_INFRACTION_DOWNTIME || s.Power != exp.power {
			w.Violation("C08", "slash-call-arguments", map[string]any{"consumer": exp.consumer, "val": w.valNameHex(pc), "power": s.Power, "expected_power": exp.power, "infraction": s.Infraction.String()})
		}
		return
	}
	w.Violation("C08", "jailed-without-slash-call", map[string]any{"consumer": exp.consumer, "val": w.valNameHex(pc)})
}

func (w *World) valNameHex(pc string) string {
	for _, v := range w.Vals {
		if consHex(v.ConsAddr()) == pc {
			return fmt.Sprintf("val%d", v.Idx)
		}
	}
	return pc
}

func (m *monC08) expectAck(id, addr string) { m.pendingAcks[id] = append(m.pendingAcks[id], addr) }

func (m *monC08) wantAck(w *World, id string, got []byte, want ccv.PacketAckResult, row string) {
	if string(got) != string(want) {
		w.Violation("C08", "wrong-acknowledgement:"+row, map[string]any{"consumer": id, "got": got, "want": []byte(want)})
	}
}

func (m *monC08) consumerByChannel(ctx sdk.Context, channel string, b *punishSnap) (string, bool) {
	return m.w.P.PApp.ProviderKeeper.GetChannelIdToConsumerId(ctx, channel)
}

func sameStrings(a, b []string) bool {
	if len(a) != len(b) {
		return false
	}
	x := append([]string(nil), a...)
	y := append([]string(nil), b...)
	sort.Strings(x)
	sort.Strings(y)
	for i := range x {
		if x[i] != y[i] {
			return false
		}
	}
	return true
}

// checkVSCAcks: a VSC packet created for a consumer carries exactly the acknowledgements owed at that moment.
func (m *monC08) checkVSCAcks(c *Chain, res *abci.ResponseFinalizeBlock) {
	w := m.w
	pk := w.P.PApp.ProviderKeeper
	ctx := c.Ctx()
	cur := pk.GetValidatorSetUpdateId(ctx)
	seen := map[string]bool{}
	check := func(id string, d ccv.ValidatorSetChangePacketData) {
		vk := fmt.Sprintf("%s/%d", id, d.ValsetUpdateId)
		if d.ValsetUpdateId != cur-1 || seen[id] || m.validated[vk] {
			return // older packet (queued earlier) or already judged
		}
		seen[id] = true
		m.validated[vk] = true
		owed := m.pendingAcks[id]
		w.Eval("C08")
		if len(owed) > 0 || len(d.SlashAcks) > 0 {
			w.Event("C08", "vsc-packets-carrying-acks")
		}
		if !sameStrings(d.SlashAcks, owed) {
			w.Violation("C08", "vsc-packet-acks-differ-from-owed", map[string]any{"consumer": id, "vsc": d.ValsetUpdateId, "carried": d.SlashAcks, "owed": owed})
		}
		delete(m.pendingAcks, id)
	}
	if m.prevEnd == nil {
		return
	}
	for _, p := range parseSent(collectEvents(res)) {
		if p.SourcePort != ccv.ProviderPortID {
			continue
		}
		if id, ok := pk.GetChannelIdToConsumerId(ctx, p.SourceChannel); ok {
			if d, ok := decodeVSC(p.Data); ok {
				check(id, d)
			}
		}
	}
	for id, ph := range m.preEnd.Phase {
		if ph != phLaunch {
			continue
		}
		for _, d := range pk.GetPendingVSCPackets(ctx, id) {
			check(id, d)
		}
	}
	// consumers that disappeared: nothing is owed any more
	for id := range m.pendingAcks {
		if ph := pk.GetConsumerPhase(ctx, id); ph == phDeleted {
			delete(m.pendingAcks, id)
		}
	}
}

// ---- consumer side of C08: at most one outstanding downtime report per validator, cleared on acknowledgement

func (m *monC08) afterConsumer(c *Chain, req *abci.RequestFinalizeBlock, res *abci.ResponseFinalizeBlock, txs []TxOutcome) {
	w := m.w
	st := w.consOutstanding(c.ConsumerID)
	// requests raised by the real x/slashing in this block
	for _, ev := range res.Events {
		if ev.Type != "consumer_slash_request" {
			continue
		}
		var addr, inf string
		for _, a := range ev.Attributes {
			switch a.Key {
			case ccv.AttributeValidatorAddress:
				addr = a.Value
			case ccv.AttributeInfractionType:
				inf = a.Value
			}
		}
		if inf != "INFRACTION_DOWNTIME" {
			continue
		}
		w.Eval("C08")
		w.Event("C08", "consumer-downtime-requests")
		if st[addr] {
			w.Violation("C08", "second-outstanding-report-for-validator", map[string]any{"consumer": c.ConsumerID, "validator": addr, "height": req.Height})
		}
		st[addr] = true
	}
	// acknowledgements received with VSC packets, and validators that (re)joined
	for _, o := range txs {
		if !o.OK() {
			continue
		}
		for _, msg := range o.Spec.Msgs {
			rp, ok := msg.(*channeltypes.MsgRecvPacket)
			if !ok || rp.Packet.DestinationPort != ccv.ConsumerPortID {
				continue
			}
			if d, ok := decodeVSC(rp.Packet.Data); ok {
				for _, a := range d.SlashAcks {
					if ca, err := ccv.GetConsAddrFromBech32(a); err == nil {
						if st[sdk.ConsAddress(ca).String()] {
							w.Event("C08", "consumer-outstanding-cleared-by-ack")
						}
						delete(st, sdk.ConsAddress(ca).String())
					}
				}
			}
		}
	}
	for _, u := range res.ValidatorUpdates {
		if u.Power > 0 {
			if ca, err := ccv.TMCryptoPublicKeyToConsAddr(u.PubKey); err == nil {
				if _, was := m.prevEngine(c)[u.PubKey.String()]; !was {
					delete(st, ca.String()) // a validator that joins starts without an outstanding flag
				}
			}
		}
	}
	m.setPrevEngine(c)
	// compare with the consumer's own record
	got := map[string]bool{}
	for _, od := range c.CApp.ConsumerKeeper.GetAllOutstandingDowntimes(c.Ctx()) {
		got[od.ValidatorConsensusAddress] = true
	}
	w.Eval("C08")
	for a := range st {
		if !got[a] {
			w.Violation("C08", "outstanding-report-cleared-without-acknowledgement", map[string]any{"consumer": c.ConsumerID, "validator": a, "height": req.Height})
			delete(st, a)
		}
	}
	for a := range got {
		if !st[a] {
			w.Violation("C08", "outstanding-report-without-request", map[string]any{"consumer": c.ConsumerID, "validator": a, "height": req.Height})
			st[a] = true
		}
	}
}

var outstandingByWorld = map[*World]map[string]map[string]bool{}
var prevEngineByWorld = map[*World]map[string]map[string]int64{}

func (w *World) consOutstanding(id string) map[string]bool {
	m, ok := outstandingByWorld[w]
	if !ok {
		m = map[string]map[string]bool{}
		outstandingByWorld[w] = m
	}
	if _, ok := m[id]; !ok {
		m[id] = map[string]bool{}
	}
	return m[id]
}

func (m *monC08) prevEngine(c *Chain) map[string]int64 {
	pm, ok := prevEngineByWorld[m.w]
	if !ok {
		pm = map[string]map[string]int64{}
		prevEngineByWorld[m.w] = pm
	}
	if e, ok := pm[c.ConsumerID]; ok {
		return e
	}
	return c.Engine
}

func (m *monC08) setPrevEngine(c *Chain) {
	pm, ok := prevEngineByWorld[m.w]
	if !ok {
		pm = map[string]map[string]int64{}
		prevEngineByWorld[m.w] = pm
	}
	pm[c.ConsumerID] = copySet(c.Engine)
}

// Final: the window bound of C09 over the whole meter log.
func (m *monC08) Final() {
	w := m.w
	n := len(m.log)
	if n == 0 {
		return
	}
	var globalMax int64
	for _, o := range m.log {
		if o.MaxSingle > globalMax {
			globalMax = o.MaxSingle
		}
	}
	windows := 0
	for i := 0; i < n; i++ {
		var jailed int64
		accrued := math.ZeroInt()
		start := m.log[i].MeterBegin
		if start.IsNegative() {
			start = math.ZeroInt()
		}
		for j := i; j < n; j++ {
			if j > i {
				accrued = accrued.Add(m.log[j].Replenished)
			}
			jailed += m.log[j].Jailed
			if m.log[j].Jailed == 0 {
				continue
			}
			windows++
			bound := start.Add(accrued).Add(math.NewInt(globalMax))
			if math.NewInt(jailed).GT(bound) {
				w.Violation("C09", "jailed-power-exceeds-window-bound", map[string]any{"from_height": m.log[i].Height, "to_height": m.log[j].Height, "jailed": jailed, "bound": bound.String()})
				return
			}
		}
	}
	if windows > 0 {
		w.EventN("C09", "windows-checked", int64(windows))
		w.Eval("C09")
	}
}
