package sim

import (
	"fmt"

	abci "github.com/cometbft/cometbft/abci/types"
	cmttypes "github.com/cometbft/cometbft/types"

	"github.com/cosmos/gogoproto/proto"

	sdk "github.com/cosmos/cosmos-sdk/types"

	clienttypes "github.com/cosmos/ibc-go/v10/modules/core/02-client/types"
	connectiontypes "github.com/cosmos/ibc-go/v10/modules/core/03-connection/types"
	channeltypes "github.com/cosmos/ibc-go/v10/modules/core/04-channel/types"
	commitmenttypes "github.com/cosmos/ibc-go/v10/modules/core/23-commitment/types"
	host "github.com/cosmos/ibc-go/v10/modules/core/24-host"
	ibctm "github.com/cosmos/ibc-go/v10/modules/light-clients/07-tendermint"
	ibctesting "github.com/cosmos/ibc-go/v10/testing"
)

// InFlight is a packet (or ack) waiting in the relayer.
type InFlight struct {
	Packet   channeltypes.Packet
	Ack      []byte // non-nil for an acknowledgement travelling back
	Height   int64  // height of the block on the source chain that committed it
	SentStep int
	Done     bool // delivered (tx succeeded) or given up
	Fails    int
	TimedOut bool // the packet can no longer be received; a MsgTimeout goes to the sender instead
	FromProv bool // sent by the provider chain
}

// Link is the relayer's view of one provider<->consumer pair.
type Link struct {
	W   *World
	CID string
	C   *Chain

	ProvClient string // client on the provider tracking the consumer
	ConsClient string // client on the consumer tracking the provider
	ProvConn   string
	ConsConn   string
	ProvChan   string // CCV channel end on the provider
	ConsChan   string
	XferProv   string // transfer channel end on provider
	XferCons   string

	ToCons     []*InFlight // packets sent by provider
	ToProv     []*InFlight // packets sent by consumer
	AcksToProv []*InFlight // acks written on the consumer
	AcksToCons []*InFlight // acks written on the provider
	Timeouts   []*InFlight // timed-out packets whose sender still has to be told (MsgTimeout)

	Dead bool // the consumer chain is no longer produced
	// CloseConfirm: the consumer closed its CCV channel end (port/channel); the relayer still has to confirm on the provider
	CloseConfirm bool
	CloseDone    bool
	Starved      bool // the relayer has stopped delivering provider packets to this consumer
}

// Relayer owns all links and the relayer account.
type Relayer struct {
	W     *World
	Links map[string]*Link
	Order []string
}

func NewRelayer(w *World) *Relayer { return &Relayer{W: w, Links: map[string]*Link{}} }

func (w *World) relayerFor(c *Chain) *Account {
	if c.IsProvider {
		return w.Accts["relayer"]
	}
	return c.relayer
}

// clientLatestHeight reads the latest height of a client on a chain (committed state).
func clientLatestHeight(c *Chain, clientID string) clienttypes.Height {
	h := c.TC.App.GetIBCKeeper().ClientKeeper.GetClientLatestHeight(c.Ctx(), clientID)
	return h
}

func clientStatus(c *Chain, clientID string) string {
	return c.TC.App.GetIBCKeeper().ClientKeeper.GetClientStatus(c.Ctx(), clientID).String()
}

// canSkip reports whether a light client trusting `trusted` (next validators at the trusted height)
// can verify a header signed by `signers` directly (> 1/3 of trusted power signs).
func canSkip(trusted, signers *cmttypes.ValidatorSet) bool {
	var tally int64
	for _, v := range trusted.Validators {
		if _, sv := signers.GetByAddress(v.Address); sv != nil {
			tally += v.VotingPower
		}
	}
	return tally*3 > trusted.TotalVotingPower()
}

// updateClientMsgs builds the MsgUpdateClient(s) that bring client `clientID` on dst to src's latest header.
// Bisection is used when the validator set changed too much for a direct skip.
func (w *World) updateClientMsgs(dst *Chain, clientID string, src *Chain) []sdk.Msg {
	target := src.Height()
	trusted := clientLatestHeight(dst, clientID)
	th := int64(trusted.RevisionHeight)
	if th >= target {
		return nil
	}
	var msgs []sdk.Msg
	var build func(from, to int64, depth int)
	build = func(from, to int64, depth int) {
		tv, ok := src.TC.TrustedValidators[uint64(from)]
		hdr, ok2 := src.Headers[to]
		if !ok || !ok2 {
			return
		}
		if to == from+1 || depth > 12 || canSkip(tv, src.ValsAt[to]) {
			h := proto.Clone(hdr).(*ibctm.Header)
			h.TrustedHeight = clienttypes.NewHeight(trusted.RevisionNumber, uint64(from))
			tvp, err := tv.ToProto()
			if err != nil {
				panic(err)
			}
			tvp.TotalVotingPower = tv.TotalVotingPower()
			h.TrustedValidators = tvp
			m, err := clienttypes.NewMsgUpdateClient(clientID, h, w.relayerFor(dst).Addr.String())
			if err != nil {
				panic(err)
			}
			msgs = append(msgs, m)
			return
		}
		mid := (from + to) / 2
		build(from, mid, depth+1)
		build(mid, to, depth+1)
	}
	build(th, target, 0)
	return msgs
}

// proofAt returns a merkle proof for key in src's ibc store, verifiable against src's header at its latest height.
func proofAt(src *Chain, key []byte) ([]byte, clienttypes.Height) {
	return src.TC.QueryProofAtHeight(key, src.Height())
}

// collectPackets scans a committed block for send_packet / write_acknowledgement events.
func collectEvents(res *abci.ResponseFinalizeBlock) []abci.Event {
	var evs []abci.Event
	evs = append(evs, res.Events...)
	for _, tr := range res.TxResults {
		if tr.Code == 0 {
			evs = append(evs, tr.Events...)
		}
	}
	return evs
}

func parseSent(evs []abci.Event) []channeltypes.Packet {
	pk, err := ibctesting.ParsePacketsFromEvents(channeltypes.EventTypeSendPacket, evs)
	if err != nil {
		return nil
	}
	return pk
}

type writtenAck struct {
	Packet channeltypes.Packet
	Ack    []byte
}

func parseAcks(evs []abci.Event) []writtenAck {
	var out []writtenAck
	for _, ev := range evs {
		if ev.Type != channeltypes.EventTypeWriteAck {
			continue
		}
		pk, err := ibctesting.ParsePacketsFromEvents(channeltypes.EventTypeWriteAck, []abci.Event{ev})
		if err != nil || len(pk) != 1 {
			continue
		}
		ack, err := ibctesting.ParseAckFromEvents([]abci.Event{ev})
		if err != nil {
			continue
		}
		out = append(out, writtenAck{Packet: pk[0], Ack: ack})
	}
	return out
}

// observeProviderBlock files packets/acks emitted by a provider block into the links.
func (r *Relayer) observeProviderBlock(c *Chain, res *abci.ResponseFinalizeBlock) {
	evs := collectEvents(res)
	h := c.Height()
	for _, p := range parseSent(evs) {
		l := r.linkByProvChannel(p.SourcePort, p.SourceChannel)
		if l == nil {
			continue
		}
		l.ToCons = append(l.ToCons, &InFlight{Packet: p, Height: h, SentStep: r.W.Step, FromProv: true})
	}
	for _, a := range parseAcks(evs) {
		l := r.linkByProvChannel(a.Packet.DestinationPort, a.Packet.DestinationChannel)
		if l == nil {
			continue
		}
		l.AcksToCons = append(l.AcksToCons, &InFlight{Packet: a.Packet, Ack: a.Ack, Height: h, SentStep: r.W.Step})
	}
}

func (r *Relayer) observeConsumerBlock(l *Link, res *abci.ResponseFinalizeBlock) {
	evs := collectEvents(res)
	for _, ev := range evs {
		if ev.Type == channeltypes.EventTypeChannelCloseInit {
			port, ch := "", ""
			for _, a := range ev.Attributes {
				switch a.Key {
				case channeltypes.AttributeKeyPortID:
					port = a.Value
				case channeltypes.AttributeKeyChannelID:
					ch = a.Value
				}
			}
			if port == "consumer" && ch == l.ConsChan && !l.CloseDone {
				l.CloseConfirm = true
				r.W.Op("consumer %s closed its CCV channel end", l.CID)
			}
		}
	}
	h := l.C.Height()
	for _, p := range parseSent(evs) {
		l.ToProv = append(l.ToProv, &InFlight{Packet: p, Height: h, SentStep: r.W.Step})
	}
	for _, a := range parseAcks(evs) {
		l.AcksToProv = append(l.AcksToProv, &InFlight{Packet: a.Packet, Ack: a.Ack, Height: h, SentStep: r.W.Step})
	}
}

func (r *Relayer) linkByProvChannel(port, channel string) *Link {
	for _, id := range r.Order {
		l := r.Links[id]
		if (port == "provider" && l.ProvChan == channel) || (port == "transfer" && l.XferProv == channel) {
			return l
		}
	}
	// the provider may send on a channel in the very block that completes its handshake: ask the provider
	if port == "provider" {
		if id, ok := r.W.P.PApp.ProviderKeeper.GetChannelIdToConsumerId(r.W.P.Ctx(), channel); ok {
			if l := r.Links[id]; l != nil {
				l.ProvChan = channel
				return l
			}
		}
	}
	return nil
}

// relayBatch builds one tx per item delivering up to n relayable items of the queue from src to dst.
// Items leave the queue only when their tx succeeded (or after repeated failures); packets whose timeout
// has passed on dst are moved to the link's timeout list instead.
func (w *World) relayBatch(l *Link, queue *[]*InFlight, n int, src, dst *Chain, tag string) []TxSpec {
	signer := w.relayerFor(dst)
	var specs []TxSpec
	k := 0
	// compact
	q := (*queue)[:0]
	for _, f := range *queue {
		if !f.Done {
			q = append(q, f)
		}
	}
	*queue = q
	for _, f := range *queue {
		if k >= n || f.Height >= src.Height() {
			break
		}
		f := f
		p := f.Packet
		var msg sdk.Msg
		if f.Ack == nil {
			if p.TimeoutTimestamp != 0 && uint64(w.Now.UnixNano()) >= p.TimeoutTimestamp {
				f.Done, f.TimedOut = true, true
				l.Timeouts = append(l.Timeouts, &InFlight{Packet: p, Height: f.Height, SentStep: f.SentStep, FromProv: f.FromProv})
				w.Infof("relayer: packet %s/%s seq=%d timed out (timeout %d, now %d)", p.SourcePort, p.SourceChannel, p.Sequence, p.TimeoutTimestamp, w.Now.UnixNano())
				continue
			}
			key := host.PacketCommitmentKey(p.SourcePort, p.SourceChannel, p.Sequence)
			proof, ph := proofAt(src, key)
			msg = channeltypes.NewMsgRecvPacket(p, proof, ph, signer.Addr.String())
		} else {
			key := host.PacketAcknowledgementKey(p.DestinationPort, p.DestinationChannel, p.Sequence)
			proof, ph := proofAt(src, key)
			msg = channeltypes.NewMsgAcknowledgement(p, f.Ack, proof, ph, signer.Addr.String())
		}
		specs = append(specs, TxSpec{Signer: signer, Msgs: []sdk.Msg{msg}, Tag: tag, OnResult: func(o TxOutcome) {
			if o.OK() {
				f.Done = true
				return
			}
			f.Fails++
			w.Infof("relayer: delivery of %s/%s seq=%d failed (%d): %s", p.SourcePort, p.SourceChannel, p.Sequence, f.Fails, logOf(o))
			if f.Fails >= 6 {
				f.Done = true
				w.Event("_tx", "relayer-gave-up")
			}
		}})
		k++
	}
	return specs
}

// timeoutSpecs builds MsgTimeout txs for timed-out packets sent by `sender`; cp is the chain that did not receive them.
func (w *World) timeoutSpecs(l *Link, sender, cp *Chain, clientOnSender string) []TxSpec {
	var specs []TxSpec
	q := l.Timeouts[:0]
	for _, f := range l.Timeouts {
		if !f.Done {
			q = append(q, f)
		}
	}
	l.Timeouts = q
	for _, f := range l.Timeouts {
		f := f
		p := f.Packet
		fromSender := sender.IsProvider == f.FromProv
		if !fromSender {
			continue
		}
		// the counterparty must have a committed header whose time is past the timeout
		hdr := cp.TC.LatestCommittedHeader
		if hdr == nil || uint64(hdr.GetTime().UnixNano()) < p.TimeoutTimestamp {
			w.Infof("relayer: timeout of %s/%s seq=%d on %s waits for a later header of %s", p.SourcePort, p.SourceChannel, p.Sequence, sender.ID, cp.ID)
			continue
		}
		specs = append(specs, TxSpec{Signer: w.relayerFor(sender), Msgs: []sdk.Msg{w.timeoutMsg(p, cp, sender)}, Tag: "relay-timeout:" + l.CID, OnResult: func(o TxOutcome) {
			if o.OK() {
				f.Done = true
				w.Event("_tx", "timeouts-delivered")
				return
			}
			f.Fails++
			w.Infof("relayer: timeout of %s/%s seq=%d failed (%d): %s", p.SourcePort, p.SourceChannel, p.Sequence, f.Fails, logOf(o))
			if f.Fails >= 4 {
				f.Done = true
				w.Event("_tx", "relayer-gave-up")
			}
		}})
	}
	return specs
}

// timeoutMsg builds MsgTimeout for a packet sent by `src`-side whose counterparty is cp (proof of non-receipt on cp).
func (w *World) timeoutMsg(p channeltypes.Packet, cp, on *Chain) sdk.Msg {
	nextSeqRecv, _ := cp.TC.App.GetIBCKeeper().ChannelKeeper.GetNextSequenceRecv(cp.Ctx(), p.DestinationPort, p.DestinationChannel)
	var key []byte
	ch, _ := cp.TC.App.GetIBCKeeper().ChannelKeeper.GetChannel(cp.Ctx(), p.DestinationPort, p.DestinationChannel)
	if ch.Ordering == channeltypes.ORDERED {
		key = host.NextSequenceRecvKey(p.DestinationPort, p.DestinationChannel)
	} else {
		key = host.PacketReceiptKey(p.DestinationPort, p.DestinationChannel, p.Sequence)
	}
	proof, ph := proofAt(cp, key)
	return channeltypes.NewMsgTimeout(p, nextSeqRecv, proof, ph, w.relayerFor(on).Addr.String())
}

// ---------------------------------------------------------------------------------------------
// handshake helpers

func eventAttr(evs []abci.Event, typ, key string) string {
	for _, ev := range evs {
		if ev.Type != typ {
			continue
		}
		for _, a := range ev.Attributes {
			if a.Key == key {
				return a.Value
			}
		}
	}
	return ""
}

// step produces a block on dst carrying client updates (from src) plus msgs; returns the outcome of the last tx.
func (w *World) stepOn(dst *Chain, clientID string, src *Chain, build func(signer string) []sdk.Msg) TxOutcome {
	racct := w.relayerFor(dst)
	var specs []TxSpec
	if src != nil && clientID != "" {
		if ups := w.updateClientMsgs(dst, clientID, src); len(ups) > 0 {
			specs = append(specs, TxSpec{Signer: racct, Msgs: ups, Tag: "update-client"})
		}
	}
	specs = append(specs, TxSpec{Signer: racct, Msgs: build(racct.Addr.String()), Tag: "handshake"})
	w.Tick()
	outs := w.Produce(dst, specs, nil)
	if len(outs) == 0 {
		return TxOutcome{}
	}
	return outs[len(outs)-1]
}

func prefixOf(c *Chain) commitmenttypes.MerklePrefix {
	return commitmenttypes.NewMerklePrefix(c.TC.App.GetIBCKeeper().ConnectionKeeper.GetCommitmentPrefix().Bytes())
}

// OpenConnection runs the 4-step connection handshake initiated on the consumer.
func (l *Link) OpenConnection() error {
	w := l.W
	p, c := w.P, l.C
	// INIT on consumer
	o := w.stepOn(c, l.ConsClient, p, func(signer string) []sdk.Msg {
		return []sdk.Msg{connectiontypes.NewMsgConnectionOpenInit(l.ConsClient, l.ProvClient, prefixOf(p), ibctesting.DefaultOpenInitVersion, 0, signer)}
	})
	if !o.OK() {
		return fmt.Errorf("conn init: %s", logOf(o))
	}
	l.ConsConn = eventAttr(o.Result.Events, connectiontypes.EventTypeConnectionOpenInit, connectiontypes.AttributeKeyConnectionID)
	w.Tick()
	w.Produce(c, nil, nil)
	// TRY on provider
	o = w.stepOn(p, l.ProvClient, c, func(signer string) []sdk.Msg {
		proof, ph := proofAt(c, host.ConnectionKey(l.ConsConn))
		return []sdk.Msg{connectiontypes.NewMsgConnectionOpenTry(l.ProvClient, l.ConsConn, l.ConsClient, prefixOf(c),
			[]*connectiontypes.Version{ibctesting.ConnectionVersion}, 0, proof, ph, signer)}
	})
	if !o.OK() {
		return fmt.Errorf("conn try: %s", logOf(o))
	}
	l.ProvConn = eventAttr(o.Result.Events, connectiontypes.EventTypeConnectionOpenTry, connectiontypes.AttributeKeyConnectionID)
	w.Tick()
	w.Produce(p, nil, nil)
	// ACK on consumer
	o = w.stepOn(c, l.ConsClient, p, func(signer string) []sdk.Msg {
		proof, ph := proofAt(p, host.ConnectionKey(l.ProvConn))
		return []sdk.Msg{connectiontypes.NewMsgConnectionOpenAck(l.ConsConn, l.ProvConn, proof, ph, ibctesting.ConnectionVersion, signer)}
	})
	if !o.OK() {
		return fmt.Errorf("conn ack: %s", logOf(o))
	}
	w.Tick()
	w.Produce(c, nil, nil)
	// CONFIRM on provider
	o = w.stepOn(p, l.ProvClient, c, func(signer string) []sdk.Msg {
		proof, ph := proofAt(c, host.ConnectionKey(l.ConsConn))
		return []sdk.Msg{connectiontypes.NewMsgConnectionOpenConfirm(l.ProvConn, proof, ph, signer)}
	})
	if !o.OK() {
		return fmt.Errorf("conn confirm: %s", logOf(o))
	}
	return nil
}

// ChanSpec describes one channel handshake attempt (used for honest and hostile attempts alike).
type ChanSpec struct {
	ConsPort, ProvPort string
	Version            string
	Order              channeltypes.Order
	InitOnProvider     bool
}

// OpenChannel runs a 4-step channel handshake; returns the step at which it failed ("" if it completed)
// and the ids of the channel ends that were created.
func (l *Link) OpenChannel(s ChanSpec, consConn, provConn string) (failedAt string, consChan, provChan string, lastLog string) {
	w := l.W
	p, c := w.P, l.C
	a, b := c, p // a initiates
	aClient, bClient := l.ConsClient, l.ProvClient
	aPort, bPort := s.ConsPort, s.ProvPort
	aConn, bConn := consConn, provConn
	if s.InitOnProvider {
		a, b = p, c
		aClient, bClient = l.ProvClient, l.ConsClient
		aPort, bPort = s.ProvPort, s.ConsPort
		aConn, bConn = provConn, consConn
	}
	var aChan, bChan string
	ret := func(at string, o TxOutcome) (string, string, string, string) {
		cc, pc := aChan, bChan
		if s.InitOnProvider {
			cc, pc = bChan, aChan
		}
		return at, cc, pc, logOf(o)
	}
	o := w.stepOn(a, aClient, b, func(signer string) []sdk.Msg {
		return []sdk.Msg{channeltypes.NewMsgChannelOpenInit(aPort, s.Version, s.Order, []string{aConn}, bPort, signer)}
	})
	if !o.OK() {
		return ret("init", o)
	}
	aChan = eventAttr(o.Result.Events, channeltypes.EventTypeChannelOpenInit, channeltypes.AttributeKeyChannelID)
	w.Tick()
	w.Produce(a, nil, nil)
	o = w.stepOn(b, bClient, a, func(signer string) []sdk.Msg {
		proof, ph := proofAt(a, host.ChannelKey(aPort, aChan))
		return []sdk.Msg{channeltypes.NewMsgChannelOpenTry(bPort, s.Version, s.Order, []string{bConn}, aPort, aChan, s.Version, proof, ph, signer)}
	})
	if !o.OK() {
		return ret("try", o)
	}
	bChan = eventAttr(o.Result.Events, channeltypes.EventTypeChannelOpenTry, channeltypes.AttributeKeyChannelID)
	bch, _ := b.TC.App.GetIBCKeeper().ChannelKeeper.GetChannel(b.Ctx(), bPort, bChan)
	w.Tick()
	w.Produce(b, nil, nil)
	o = w.stepOn(a, aClient, b, func(signer string) []sdk.Msg {
		proof, ph := proofAt(b, host.ChannelKey(bPort, bChan))
		return []sdk.Msg{channeltypes.NewMsgChannelOpenAck(aPort, aChan, bChan, bch.Version, proof, ph, signer)}
	})
	if !o.OK() {
		return ret("ack", o)
	}
	w.Tick()
	w.Produce(a, nil, nil)
	o = w.stepOn(b, bClient, a, func(signer string) []sdk.Msg {
		proof, ph := proofAt(a, host.ChannelKey(aPort, aChan))
		return []sdk.Msg{channeltypes.NewMsgChannelOpenConfirm(bPort, bChan, proof, ph, signer)}
	})
	if !o.OK() {
		return ret("confirm", o)
	}
	return ret("", o)
}

func logOf(o TxOutcome) string {
	if o.Result == nil {
		return "<no result>"
	}
	return fmt.Sprintf("code=%d %s", o.Result.Code, o.Result.Log)
}

// OpenChannelsInterleaved drives n consumer-initiated channel handshakes over the same connection pair in lock step:
// all INITs, then all TRYs, then all ACKs, then all CONFIRMs (the order in which concurrent relayers can deliver them).
// It returns, per handshake, the step that was refused ("" = completed) and the channel ids.
type hsResult struct {
	FailedAt           string
	ConsChan, ProvChan string
	Log                string
}

func (l *Link) OpenChannelsInterleaved(s ChanSpec, consConn, provConn string, n int) []hsResult {
	w := l.W
	p, c := w.P, l.C
	res := make([]hsResult, n)
	versions := make([]string, n)
	alive := func(i int) bool { return res[i].FailedAt == "" }
	for i := 0; i < n; i++ {
		o := w.stepOn(c, l.ConsClient, p, func(signer string) []sdk.Msg {
			return []sdk.Msg{channeltypes.NewMsgChannelOpenInit(s.ConsPort, s.Version, s.Order, []string{consConn}, s.ProvPort, signer)}
		})
		if !o.OK() {
			res[i].FailedAt, res[i].Log = "init", logOf(o)
			continue
		}
		res[i].ConsChan = eventAttr(o.Result.Events, channeltypes.EventTypeChannelOpenInit, channeltypes.AttributeKeyChannelID)
	}
	w.Tick()
	w.Produce(c, nil, nil)
	for i := 0; i < n; i++ {
		if !alive(i) {
			continue
		}
		i := i
		o := w.stepOn(p, l.ProvClient, c, func(signer string) []sdk.Msg {
			proof, ph := proofAt(c, host.ChannelKey(s.ConsPort, res[i].ConsChan))
			return []sdk.Msg{channeltypes.NewMsgChannelOpenTry(s.ProvPort, s.Version, s.Order, []string{provConn}, s.ConsPort, res[i].ConsChan, s.Version, proof, ph, signer)}
		})
		if !o.OK() {
			res[i].FailedAt, res[i].Log = "try", logOf(o)
			continue
		}
		res[i].ProvChan = eventAttr(o.Result.Events, channeltypes.EventTypeChannelOpenTry, channeltypes.AttributeKeyChannelID)
		ch, _ := p.TC.App.GetIBCKeeper().ChannelKeeper.GetChannel(p.Ctx(), s.ProvPort, res[i].ProvChan)
		versions[i] = ch.Version
	}
	w.Tick()
	w.Produce(p, nil, nil)
	for i := 0; i < n; i++ {
		if !alive(i) {
			continue
		}
		i := i
		o := w.stepOn(c, l.ConsClient, p, func(signer string) []sdk.Msg {
			proof, ph := proofAt(p, host.ChannelKey(s.ProvPort, res[i].ProvChan))
			return []sdk.Msg{channeltypes.NewMsgChannelOpenAck(s.ConsPort, res[i].ConsChan, res[i].ProvChan, versions[i], proof, ph, signer)}
		})
		if !o.OK() {
			res[i].FailedAt, res[i].Log = "ack", logOf(o)
		}
	}
	w.Tick()
	w.Produce(c, nil, nil)
	for i := 0; i < n; i++ {
		if !alive(i) {
			continue
		}
		i := i
		o := w.stepOn(p, l.ProvClient, c, func(signer string) []sdk.Msg {
			proof, ph := proofAt(c, host.ChannelKey(s.ConsPort, res[i].ConsChan))
			return []sdk.Msg{channeltypes.NewMsgChannelOpenConfirm(s.ProvPort, res[i].ProvChan, proof, ph, signer)}
		})
		if !o.OK() {
			res[i].FailedAt, res[i].Log = "confirm", logOf(o)
		}
	}
	return res
}
