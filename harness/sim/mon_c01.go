package sim

import (
	"fmt"
	"strconv"

	abci "github.com/cometbft/cometbft/abci/types"

	sdk "github.com/cosmos/cosmos-sdk/types"

	channeltypes "github.com/cosmos/ibc-go/v10/modules/core/04-channel/types"

	providertypes "github.com/cosmos/interchain-security/v7/x/ccv/provider/types"
	ccv "github.com/cosmos/interchain-security/v7/x/ccv/types"
)

// provSide is what the provider decided for one consumer.
type provSide struct {
	launchSet   map[string]int64            // S0
	setByVsc    map[uint64]map[string]int64 // set carried by the packet with that id
	lastSet     map[string]int64
	wireSet     map[string]int64 // fold of the packets observed on the wire / in the pending queue
	wireLastID  uint64
	created     map[uint64]bool // packet ids known to have been created (pending or sent)
	lastEpochID uint64
	stopped     bool
}

// consSide is what a live consumer chain has done so far.
type consSide struct {
	lastID    uint64            // id of the latest VSC packet received
	idxOrder  []uint64          // ids in order of adoption (for monotonicity)
	heightMap map[uint64]uint64 // expected HeightToValsetUpdateID
	batchNow  int
}

// monC01 decides C01 (replication of the provider's sets, in order) and C12 (update ids and heights line up).
type monC01 struct {
	w          *World
	prov       map[string]*provSide
	cons       map[string]*consSide
	prevVscID  uint64
	seen       bool
	producedAt map[uint64]int64 // vsc id -> provider height of the block that produced it
	confirmAt  map[string]int64 // consumer id -> provider height of the ChanOpenConfirm block
	epochBlock bool
	curHeight  int64
}

func init() {
	registerMonitor(func(w *World) Monitor {
		return &monC01{w: w, prov: map[string]*provSide{}, cons: map[string]*consSide{}, producedAt: map[uint64]int64{}, confirmAt: map[string]int64{}}
	})
}

func (m *monC01) Name() string { return "C01/C12" }

func consumerSetOf(vals []providertypes.ConsensusValidator) map[string]int64 {
	s := map[string]int64{}
	for _, v := range vals {
		s[pkStr(*v.PublicKey)] = v.Power
	}
	return s
}

func (m *monC01) PostBegin(ctx sdk.Context) {
	// consumers launched in this BeginBlock: record S0
	pk := m.w.P.PApp.ProviderKeeper
	for _, id := range pk.GetAllConsumerIds(ctx) {
		if pk.GetConsumerPhase(ctx, id) != phLaunch {
			continue
		}
		if _, ok := m.prov[id]; ok {
			continue
		}
		vs, err := pk.GetConsumerValSet(ctx, id)
		if err != nil {
			continue
		}
		s0 := consumerSetOf(vs)
		m.prov[id] = &provSide{launchSet: s0, lastSet: s0, wireSet: copySet(s0), setByVsc: map[uint64]map[string]int64{}, created: map[uint64]bool{}}
	}
}

func (m *monC01) PreEnd(ctx sdk.Context) {}

func (m *monC01) PostEnd(ctx sdk.Context) {
	w := m.w
	pk := w.P.PApp.ProviderKeeper
	cur := pk.GetValidatorSetUpdateId(ctx)
	h := ctx.BlockHeight()
	m.curHeight = h
	epoch := pk.BlocksUntilNextEpoch(ctx) == 0
	m.epochBlock = epoch
	// C12: the id increases by exactly one per epoch block and not otherwise
	if m.seen {
		w.Eval("C12")
		want := m.prevVscID
		if epoch {
			want++
		}
		if cur != want {
			w.Violation("C12", "vsc-id-step", map[string]any{"height": h, "epoch_block": epoch, "before": m.prevVscID, "after": cur})
		}
	}
	if epoch {
		produced := cur - 1
		m.producedAt[produced] = h
		w.Event("C12", "epochs")
	}
	// every produced id maps to (height of the producing block)+1, for as long as the mapping exists
	for _, e := range pk.GetAllValsetUpdateBlockHeights(ctx) {
		if at, ok := m.producedAt[e.ValsetUpdateId]; ok {
			w.Eval("C12")
			if e.Height != uint64(at)+1 {
				w.Violation("C12", "vsc-id-to-height-mapping", map[string]any{"id": e.ValsetUpdateId, "stored": e.Height, "produced_in_block": at})
			}
		}
	}
	if epoch {
		if hh, ok := pk.GetValsetUpdateBlockHeight(ctx, cur-1); !ok || hh != uint64(h)+1 {
			w.Violation("C12", "vsc-id-to-height-mapping-missing", map[string]any{"id": cur - 1, "stored": hh, "found": ok, "block": h})
		}
	}
	m.prevVscID, m.seen = cur, true

	if !epoch {
		return
	}
	// C01 provider side: record the set decided for every launched consumer
	for id, ps := range m.prov {
		ph := pk.GetConsumerPhase(ctx, id)
		if ph != phLaunch {
			if !ps.stopped {
				ps.stopped = true
			}
			continue
		}
		vs, err := pk.GetConsumerValSet(ctx, id)
		if err != nil {
			continue
		}
		set := consumerSetOf(vs)
		changed := !sameSet(set, ps.lastSet)
		ps.lastEpochID = cur - 1
		if changed {
			ps.setByVsc[cur-1] = set
			ps.lastSet = set
			w.Event("C01", "provider-set-changes")
		}
		// packets waiting for the channel: known to exist, and folded in order
		for _, p := range pk.GetPendingVSCPackets(ctx, id) {
			ps.created[p.ValsetUpdateId] = true
			m.foldWire(id, ps, p)
		}
	}
}

// foldWire folds a packet (seen in the pending queue or on the wire) into the per-consumer wire set, once, in order.
func (m *monC01) foldWire(id string, ps *provSide, p ccv.ValidatorSetChangePacketData) {
	w := m.w
	if p.ValsetUpdateId <= ps.wireLastID && ps.wireLastID != 0 {
		return // already folded
	}
	w.Eval("C12")
	if ps.wireLastID != 0 && p.ValsetUpdateId <= ps.wireLastID {
		w.Violation("C12", "packet-ids-not-increasing", map[string]any{"consumer": id, "prev": ps.wireLastID, "id": p.ValsetUpdateId})
	}
	ps.wireLastID = p.ValsetUpdateId
	for _, u := range p.ValidatorUpdates {
		k := u.PubKey.String()
		if u.Power == 0 {
			if _, had := ps.wireSet[k]; !had {
				w.Violation("C01", "packet-removes-unknown-key", map[string]any{"consumer": id, "vsc": p.ValsetUpdateId})
			}
			delete(ps.wireSet, k)
		} else {
			ps.wireSet[k] = u.Power
		}
	}
	w.Eval("C01")
	if want, ok := ps.setByVsc[p.ValsetUpdateId]; ok {
		if !sameSet(want, ps.wireSet) {
			w.Violation("C01", "packets-do-not-reproduce-provider-set", map[string]any{"consumer": id, "vsc": p.ValsetUpdateId, "folded": setStr(ps.wireSet), "provider": setStr(want)})
		}
	}
}

func decodeVSC(data []byte) (ccv.ValidatorSetChangePacketData, bool) {
	var d ccv.ValidatorSetChangePacketData
	if err := ccv.ModuleCdc.UnmarshalJSON(data, &d); err != nil {
		return d, false
	}
	return d, true
}

func (m *monC01) AfterBlock(c *Chain, req *abci.RequestFinalizeBlock, res *abci.ResponseFinalizeBlock, txs []TxOutcome) {
	if c.IsProvider {
		m.afterProvider(c, req, res, txs)
		return
	}
	m.afterConsumer(c, req, res, txs)
}

func (m *monC01) afterProvider(c *Chain, req *abci.RequestFinalizeBlock, res *abci.ResponseFinalizeBlock, txs []TxOutcome) {
	w := m.w
	pk := w.P.PApp.ProviderKeeper
	ctx := c.Ctx()
	// packets sent in this block (EndBlock events)
	for _, p := range parseSent(collectEvents(res)) {
		if p.SourcePort != ccv.ProviderPortID {
			continue
		}
		id, ok := pk.GetChannelIdToConsumerId(ctx, p.SourceChannel)
		if !ok {
			continue
		}
		ps := m.prov[id]
		d, okd := decodeVSC(p.Data)
		if ps == nil || !okd {
			continue
		}
		ps.created[d.ValsetUpdateId] = true
		// folding happens after the epoch's set was recorded (PostEnd ran before this)
		m.foldWire(id, ps, d)
		w.Event("C01", "vsc-packets-sent")
	}
	// "a packet for epoch i exists <=> the set changed in epoch i"
	if m.epochBlock {
		for id, ps := range m.prov {
			if ps.stopped || ps.lastEpochID == 0 {
				continue
			}
			_, changed := ps.setByVsc[ps.lastEpochID]
			w.Eval("C01")
			if changed != ps.created[ps.lastEpochID] {
				w.Violation("C01", "packet-iff-set-changed", map[string]any{"consumer": id, "vsc": ps.lastEpochID, "set_changed": changed, "packet_created": ps.created[ps.lastEpochID]})
			}
		}
	}
	// remember where channels were confirmed (infraction height for id 0)
	for _, o := range txs {
		if !o.OK() {
			continue
		}
		for _, msg := range o.Spec.Msgs {
			if cm, ok := msg.(*channeltypes.MsgChannelOpenConfirm); ok && cm.PortId == ccv.ProviderPortID {
				if id, ok := pk.GetChannelIdToConsumerId(ctx, cm.ChannelId); ok {
					m.confirmAt[id] = req.Height
					if h, ok := pk.GetInitChainHeight(ctx, id); !ok || int64(h) != req.Height {
						w.Violation("C12", "init-chain-height-not-channel-opening-height", map[string]any{"consumer": id, "stored": h, "opened_in": req.Height})
					}
				}
			}
		}
		// provider-side resolution of slash packets
		for _, ev := range o.Result.Events {
			if ev.Type != providertypes.EventTypeExecuteConsumerChainSlash {
				continue
			}
			var ih, vsc string
			for _, a := range ev.Attributes {
				switch a.Key {
				case providertypes.AttributeInfractionHeight:
					ih = a.Value
				case ccv.AttributeValSetUpdateID:
					vsc = a.Value
				}
			}
			vid, _ := strconv.ParseUint(vsc, 10, 64)
			got, _ := strconv.ParseInt(ih, 10, 64)
			cid := ""
			for _, msg := range o.Spec.Msgs {
				if rp, ok := msg.(*channeltypes.MsgRecvPacket); ok {
					cid, _ = pk.GetChannelIdToConsumerId(ctx, rp.Packet.DestinationChannel)
				}
			}
			w.Eval("C12")
			w.Event("C12", "slash-packets-resolved")
			var want int64
			if vid == 0 {
				want = m.confirmAt[cid]
				w.Case("C12", "resolve:id0")
			} else if at, ok := m.producedAt[vid]; ok && at != req.Height {
				want = at + 1
				w.Case("C12", "resolve:id>0")
			} else {
				// (also when this block is the epoch block that produces the id: its EndBlock ran after the transaction)
				// the id of the update that was still being collected while this block's transactions ran (produced by this block's
				// EndBlock at the earliest): the previous block's EndBlock mapped it to this height
				want = req.Height
				w.Case("C12", "resolve:current-id")
			}
			if want != 0 && got != want {
				w.Violation("C12", "provider-resolved-wrong-infraction-height", map[string]any{"consumer": cid, "vsc": vid, "got": got, "want": want})
			}
		}
	}
}

func (m *monC01) AfterBoot(c *Chain) {
	cs := &consSide{heightMap: map[uint64]uint64{}}
	m.cons[c.ConsumerID] = cs
}

func (m *monC01) afterConsumer(c *Chain, req *abci.RequestFinalizeBlock, res *abci.ResponseFinalizeBlock, txs []TxOutcome) {
	w := m.w
	id := c.ConsumerID
	cs := m.cons[id]
	ps := m.prov[id]
	if cs == nil {
		cs = &consSide{heightMap: map[uint64]uint64{}}
		m.cons[id] = cs
	}
	if ps == nil {
		return
	}
	// VSC packets received in this block, in order
	batch := 0
	for _, o := range txs {
		if !o.OK() {
			continue
		}
		for _, msg := range o.Spec.Msgs {
			rp, ok := msg.(*channeltypes.MsgRecvPacket)
			if !ok || rp.Packet.DestinationPort != ccv.ConsumerPortID {
				continue
			}
			d, okd := decodeVSC(rp.Packet.Data)
			if !okd {
				continue
			}
			// only count packets whose acknowledgement was a success (an error ack means the packet was not applied)
			if ack := parseAcks(o.Result.Events); len(ack) > 0 {
				var a channeltypes.Acknowledgement
				if err := channeltypes.SubModuleCdc.UnmarshalJSON(ack[0].Ack, &a); err == nil && !a.Success() {
					continue
				}
			}
			if d.ValsetUpdateId <= cs.lastID && cs.lastID != 0 {
				w.Violation("C01", "consumer-received-older-packet", map[string]any{"consumer": id, "last": cs.lastID, "got": d.ValsetUpdateId})
			}
			cs.lastID = d.ValsetUpdateId
			batch++
		}
	}
	h := uint64(req.Height)
	// expected set
	want := ps.launchSet
	if cs.lastID != 0 {
		s, ok := ps.setByVsc[cs.lastID]
		if !ok {
			w.Violation("C01", "consumer-received-packet-the-provider-never-decided", map[string]any{"consumer": id, "vsc": cs.lastID})
			return
		}
		want = s
	}
	ck := c.CApp.ConsumerKeeper
	ctx := c.Ctx()
	got := map[string]int64{}
	for _, v := range ck.GetAllCCValidator(ctx) {
		pk, err := v.ConsPubKey()
		if err != nil {
			continue
		}
		tk, err := sdkPubToProto(pk)
		if err != nil {
			continue
		}
		got[tk.String()] = v.Power
	}
	w.Eval("C01")
	w.Event("C01", "consumer-blocks")
	if batch > 0 {
		w.Event("C01", "consumer-blocks-with-packets")
		if batch >= 3 {
			w.Event("C01", "consumer-blocks-with-batch>=3")
		}
		lag := int64(0)
		if ps.lastEpochID >= cs.lastID {
			lag = int64(ps.lastEpochID - cs.lastID)
		}
		w.Case("C01", fmt.Sprintf("batch=%s lag=%s", bucket(batch), bucket(int(lag)+1)))
		w.Sample("C01", map[string]any{"consumer": id, "height": h, "batch": batch, "adopted_vsc": cs.lastID, "set_size": len(want)})
	}
	if !sameSet(got, want) {
		w.Violation("C01", "consumer-stored-set-differs", map[string]any{"consumer": id, "height": h, "vsc": cs.lastID, "stored": setStr(got), "provider": setStr(want)})
	}
	if !sameSet(c.Engine, want) {
		w.Violation("C01", "consumer-engine-set-differs", map[string]any{"consumer": id, "height": h, "vsc": cs.lastID, "engine": setStr(c.Engine), "provider": setStr(want), "updates": fmtUpdates(res.ValidatorUpdates)})
	}
	// C12: height -> id mapping: block h+1 is associated with the latest id received up to block h
	cs.heightMap[h+1] = cs.lastID
	w.Eval("C12")
	w.Event("C12", "consumer-height-mappings")
	if gotID := ck.GetHeightValsetUpdateID(ctx, h+1); gotID != cs.lastID {
		w.Violation("C12", "consumer-height-to-id-mapping", map[string]any{"consumer": id, "height": h + 1, "stored": gotID, "expected": cs.lastID})
	}
	if h%16 == 0 {
		for _, e := range ck.GetAllHeightToValsetUpdateIDs(ctx) {
			if exp, ok := cs.heightMap[e.Height]; ok && exp != e.ValsetUpdateId {
				w.Violation("C12", "consumer-height-to-id-mapping-changed", map[string]any{"consumer": id, "height": e.Height, "stored": e.ValsetUpdateId, "expected": exp})
			}
		}
	}
	// slash requests raised in this block (BeginBlock of x/slashing): downtime infractions refer to height h-2
	for _, ev := range res.Events {
		if ev.Type != "consumer_slash_request" {
			continue
		}
		var vsc, inf string
		for _, a := range ev.Attributes {
			switch a.Key {
			case ccv.AttributeValSetUpdateID:
				vsc = a.Value
			case ccv.AttributeInfractionType:
				inf = a.Value
			}
		}
		if inf != "INFRACTION_DOWNTIME" {
			continue
		}
		vid, _ := strconv.ParseUint(vsc, 10, 64)
		w.Eval("C12")
		w.Event("C12", "slash-requests-observed")
		if h >= 3 {
			if exp, ok := cs.heightMap[h-2]; ok {
				if exp != vid {
					w.Violation("C12", "slash-packet-carries-wrong-id", map[string]any{"consumer": id, "block": h, "infraction_height": h - 2, "carried": vid, "expected": exp})
				}
				w.Case("C12", fmt.Sprintf("slash-request id=%s", bucket(int(vid)+1)))
			}
		}
	}
}
