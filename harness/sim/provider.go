package sim

import (
	"encoding/json"
	"fmt"
	"math/rand"
	"time"

	"cosmossdk.io/log"
	"cosmossdk.io/math"

	abci "github.com/cometbft/cometbft/abci/types"
	cmted25519 "github.com/cometbft/cometbft/crypto/ed25519"
	cmtproto "github.com/cometbft/cometbft/proto/tendermint/types"
	cmttypes "github.com/cometbft/cometbft/types"

	db "github.com/cosmos/cosmos-db"
	"github.com/cosmos/cosmos-sdk/baseapp"
	codectypes "github.com/cosmos/cosmos-sdk/codec/types"
	cryptocodec "github.com/cosmos/cosmos-sdk/crypto/codec"
	simtestutil "github.com/cosmos/cosmos-sdk/testutil/sims"
	sdk "github.com/cosmos/cosmos-sdk/types"
	authtypes "github.com/cosmos/cosmos-sdk/x/auth/types"
	banktypes "github.com/cosmos/cosmos-sdk/x/bank/types"
	govtypes "github.com/cosmos/cosmos-sdk/x/gov/types"
	govv1 "github.com/cosmos/cosmos-sdk/x/gov/types/v1"
	slashingtypes "github.com/cosmos/cosmos-sdk/x/slashing/types"
	stakingtypes "github.com/cosmos/cosmos-sdk/x/staking/types"

	ibctm "github.com/cosmos/ibc-go/v10/modules/light-clients/07-tendermint"
	ibctesting "github.com/cosmos/ibc-go/v10/testing"

	appProvider "github.com/cosmos/interchain-security/v7/app/provider"
	providertypes "github.com/cosmos/interchain-security/v7/x/ccv/provider/types"
)

const BondDenom = "stake"

// ConsKey is a consensus key the harness owns.
type ConsKey struct {
	Name string
	Priv cmted25519.PrivKey
	PV   cmttypes.PrivValidator
	Addr sdk.ConsAddress
}

func NewConsKey(name string) *ConsKey {
	priv := cmted25519.GenPrivKeyFromSecret([]byte("verif-cons-" + name))
	return &ConsKey{Name: name, Priv: priv, PV: cmttypes.NewMockPVWithParams(priv, false, false), Addr: sdk.ConsAddress(priv.PubKey().Address())}
}

// SDKPubKeyJSON is the `{"@type":...,"key":...}` form used by MsgAssignConsumerKey / MsgOptIn.
func (k *ConsKey) SDKPubKeyJSON() string {
	return fmt.Sprintf(`{"@type":"/cosmos.crypto.ed25519.PubKey","key":"%s"}`, b64(k.Priv.PubKey().Bytes()))
}

// Val is a provider validator: consensus key + operator account.
type Val struct {
	Idx     int
	Key     *ConsKey
	Oper    *Account
	ValAddr sdk.ValAddress
	Tokens  int64 // genesis tokens (0: not a genesis validator)
	Created bool  // exists in staking (genesis or created by tx)
}

func (v *Val) ConsAddr() sdk.ConsAddress { return v.Key.Addr }

// Config describes a world. Everything is derived from (Seed, Profile, Tier) by MakeConfig.
type Config struct {
	Seed    int64  `json:"seed"`
	Profile string `json:"profile"`
	Tier    string `json:"tier"`
	Steps   int    `json:"steps"`

	NumVals           int           `json:"num_vals"`
	SpareVals         int           `json:"spare_vals"` // accounts+keys that may create validators later
	Tokens            []int64       `json:"tokens"`
	M                 int64         `json:"max_provider_consensus_validators"`
	MaxValidators     uint32        `json:"staking_max_validators"`
	BlocksPerEpoch    int64         `json:"blocks_per_epoch"`
	Unbonding         time.Duration `json:"unbonding"`
	EpochsToRewards   int64         `json:"epochs_to_rewards"`
	SlashFraction     string        `json:"slash_meter_fraction"`
	SlashPeriod       time.Duration `json:"slash_meter_period"`
	VotingPeriod      time.Duration `json:"voting_period"`
	CcvTimeout        time.Duration `json:"ccv_timeout"`
	SignedWindow      int64         `json:"signed_blocks_window"`
	LiveConsumers     int           `json:"live_consumers"`
	Votes             bool          `json:"votes"`
	Record            bool          `json:"record"`
	KeyPoolSize       int           `json:"key_pool"`
	Hostile           bool          `json:"hostile"`
	StarveSome        bool          `json:"starve_some"`
	LateHandshakeStop bool          `json:"late_handshake_stop"` // a third live consumer is stopped by its owner while its CCV handshake is still outstanding; the relayer completes it afterwards
	ErrAckStep        int           `json:"err_ack_step"`        // from this step on, a malicious live consumer answers one VSC packet with an error acknowledgement (0: never)
	RetryDelay        time.Duration `json:"retry_delay"`
	TransferTimeout   time.Duration `json:"transfer_timeout"` // consumer TransferTimeoutPeriod (0 = default); deliberately different from the retry delay

	ConsumerUnbonding time.Duration `json:"consumer_unbonding"`
	HandshakeDelayMax int           `json:"handshake_delay_max"`
}

func b64(bz []byte) string {
	const tbl = "ABCDEFGHIJKLMNOPQRSTUVWXYZabcdefghijklmnopqrstuvwxyz0123456789+/"
	out := make([]byte, 0, (len(bz)+2)/3*4)
	for i := 0; i < len(bz); i += 3 {
		var b [3]byte
		n := copy(b[:], bz[i:])
		out = append(out, tbl[b[0]>>2], tbl[(b[0]&3)<<4|b[1]>>4])
		if n > 1 {
			out = append(out, tbl[(b[1]&15)<<2|b[2]>>6])
		} else {
			out = append(out, '=')
		}
		if n > 2 {
			out = append(out, tbl[b[2]&63])
		} else {
			out = append(out, '=')
		}
	}
	return string(out)
}

// Probes are the hook points installed around the application's Begin/EndBlocker.
type Probes struct {
	PostBegin []func(ctx sdk.Context)
	PreEnd    []func(ctx sdk.Context)
	PostEnd   []func(ctx sdk.Context)
}

func (w *World) acct(name string) *Account {
	if a, ok := w.Accts[name]; ok {
		return a
	}
	a := NewAccount(name, uint64(len(w.AcctList)))
	w.Accts[name] = a
	w.AcctList = append(w.AcctList, a)
	return a
}

// SetupProvider builds the provider genesis, boots the real provider app with probes and commits block 1.
func (w *World) SetupProvider(pr *Probes) {
	cfg := w.Cfg
	total := cfg.NumVals + cfg.SpareVals
	for i := 0; i < total; i++ {
		key := NewConsKey(fmt.Sprintf("prov-%d", i))
		oper := w.acct(fmt.Sprintf("oper%d", i))
		v := &Val{Idx: i, Key: key, Oper: oper, ValAddr: sdk.ValAddress(oper.Addr)}
		if i < cfg.NumVals {
			v.Tokens = cfg.Tokens[i]
			v.Created = true
		}
		w.Vals = append(w.Vals, v)
		w.Signers[key.Priv.PubKey().Address().String()] = key.PV
	}
	for i := 0; i < cfg.KeyPoolSize; i++ {
		k := NewConsKey(fmt.Sprintf("pool-%d", i))
		w.KeyPool = append(w.KeyPool, k)
		w.Signers[k.Priv.PubKey().Address().String()] = k.PV
	}
	for _, n := range []string{"relayer", "owner0", "owner1", "owner2", "stranger", "deleg0", "deleg1", "deleg2", "faucet"} {
		w.acct(n)
	}

	encoding := appProvider.MakeTestEncodingConfig()
	app := appProvider.New(log.NewNopLogger(), db.NewMemDB(), nil, false, simtestutil.EmptyAppOptions{})
	w.Calls = InstallCallRecorder(app)
	if pr == nil {
		pr = &Probes{}
	}
	app.SetBeginBlocker(func(ctx sdk.Context) (sdk.BeginBlock, error) {
		w.Calls.ResetBlock()
		w.Calls.InBlock = true
		r, err := app.BeginBlocker(ctx)
		w.Calls.InBlock = false
		if err == nil {
			for _, f := range pr.PostBegin {
				f(ctx)
			}
		}
		return r, err
	})
	app.SetEndBlocker(func(ctx sdk.Context) (sdk.EndBlock, error) {
		for _, f := range pr.PreEnd {
			f(ctx)
		}
		w.Calls.InBlock = true
		r, err := app.EndBlocker(ctx)
		w.Calls.InBlock = false
		if err == nil {
			for _, f := range pr.PostEnd {
				f(ctx)
			}
		}
		return r, err
	})
	if err := app.LoadLatestVersion(); err != nil {
		panic(err)
	}
	cdc := encoding.Codec
	genesis := appProvider.NewDefaultGenesisState(cdc)

	// auth
	var genAccs []authtypes.GenesisAccount
	var balances []banktypes.Balance
	for _, a := range w.AcctList {
		genAccs = append(genAccs, authtypes.NewBaseAccount(a.Addr, a.Priv.PubKey(), a.AccNum, 0))
		coins := sdk.NewCoins(sdk.NewCoin(BondDenom, math.NewInt(1_000_000_000_000_000)))
		if a.Name == "faucet" {
			coins = coins.Add(sdk.NewCoin(RewardDenom, math.NewIntWithDecimal(1, 24)), sdk.NewCoin(RewardDenom2, math.NewIntWithDecimal(1, 24)))
		}
		balances = append(balances, banktypes.Balance{Address: a.Addr.String(), Coins: coins})
	}
	// the consumer rewards pool exists as a module account (as on any provider whose first consumer has connected)
	poolAcc := authtypes.NewEmptyModuleAccount(providertypes.ConsumerRewardsPool)
	if err := poolAcc.SetAccountNumber(uint64(len(genAccs))); err != nil {
		panic(err)
	}
	genAccs = append(genAccs, poolAcc)
	genesis[authtypes.ModuleName] = cdc.MustMarshalJSON(authtypes.NewGenesisState(authtypes.DefaultParams(), genAccs))

	// staking
	var stakingGenesis stakingtypes.GenesisState
	cdc.MustUnmarshalJSON(genesis[stakingtypes.ModuleName], &stakingGenesis)
	stakingGenesis.Params.BondDenom = BondDenom
	stakingGenesis.Params.MaxValidators = cfg.MaxValidators
	stakingGenesis.Params.UnbondingTime = cfg.Unbonding
	stakingGenesis.Params.MaxEntries = 100
	stakingGenesis.Params.HistoricalEntries = 10000
	var validators []stakingtypes.Validator
	var delegations []stakingtypes.Delegation
	var signingInfos []slashingtypes.SigningInfo
	sumBonded := math.ZeroInt()
	for _, v := range w.Vals[:cfg.NumVals] {
		pk, err := cryptocodec.FromCmtPubKeyInterface(v.Key.Priv.PubKey())
		if err != nil {
			panic(err)
		}
		pkAny, err := codectypes.NewAnyWithValue(pk)
		if err != nil {
			panic(err)
		}
		tokens := math.NewInt(v.Tokens)
		validators = append(validators, stakingtypes.Validator{
			OperatorAddress:   v.ValAddr.String(),
			ConsensusPubkey:   pkAny,
			Status:            stakingtypes.Bonded,
			Tokens:            tokens,
			DelegatorShares:   math.LegacyNewDecFromInt(tokens),
			Description:       stakingtypes.Description{Moniker: fmt.Sprintf("val%d", v.Idx)},
			UnbondingTime:     time.Unix(0, 0).UTC(),
			Commission:        stakingtypes.NewCommission(math.LegacyNewDecWithPrec(int64(v.Idx%5), 1), math.LegacyOneDec(), math.LegacyOneDec()),
			MinSelfDelegation: math.OneInt(),
		})
		delegations = append(delegations, stakingtypes.NewDelegation(v.Oper.Addr.String(), v.ValAddr.String(), math.LegacyNewDecFromInt(tokens)))
		sumBonded = sumBonded.Add(tokens)
		signingInfos = append(signingInfos, slashingtypes.SigningInfo{
			Address:              v.ConsAddr().String(),
			ValidatorSigningInfo: slashingtypes.ValidatorSigningInfo{Address: v.ConsAddr().String()},
		})
	}
	stakingGenesis = *stakingtypes.NewGenesisState(stakingGenesis.Params, validators, delegations)
	genesis[stakingtypes.ModuleName] = cdc.MustMarshalJSON(&stakingGenesis)
	balances = append(balances, banktypes.Balance{
		Address: authtypes.NewModuleAddress(stakingtypes.BondedPoolName).String(),
		Coins:   sdk.Coins{sdk.NewCoin(BondDenom, sumBonded)},
	})
	genesis[banktypes.ModuleName] = cdc.MustMarshalJSON(banktypes.NewGenesisState(
		banktypes.DefaultGenesisState().Params, balances, sdk.NewCoins(), []banktypes.Metadata{}, []banktypes.SendEnabled{}))

	// slashing
	var slashingGenesis slashingtypes.GenesisState
	cdc.MustUnmarshalJSON(genesis[slashingtypes.ModuleName], &slashingGenesis)
	slashingGenesis.SigningInfos = signingInfos
	slashingGenesis.Params.SignedBlocksWindow = cfg.SignedWindow
	slashingGenesis.Params.MinSignedPerWindow = math.LegacyNewDecWithPrec(5, 1)
	slashingGenesis.Params.DowntimeJailDuration = 30 * time.Second
	genesis[slashingtypes.ModuleName] = cdc.MustMarshalJSON(&slashingGenesis)

	// gov
	var govGenesis govv1.GenesisState
	cdc.MustUnmarshalJSON(genesis[govtypes.ModuleName], &govGenesis)
	vp := cfg.VotingPeriod
	govGenesis.Params.VotingPeriod = &vp
	evp := cfg.VotingPeriod / 2
	govGenesis.Params.ExpeditedVotingPeriod = &evp
	govGenesis.Params.MinDeposit = sdk.NewCoins(sdk.NewCoin(BondDenom, math.NewInt(1000)))
	govGenesis.Params.ExpeditedMinDeposit = sdk.NewCoins(sdk.NewCoin(BondDenom, math.NewInt(5000)))
	genesis[govtypes.ModuleName] = cdc.MustMarshalJSON(&govGenesis)

	// provider
	var provGenesis providertypes.GenesisState
	cdc.MustUnmarshalJSON(genesis[providertypes.ModuleName], &provGenesis)
	provGenesis.Params.MaxProviderConsensusValidators = cfg.M
	provGenesis.Params.BlocksPerEpoch = cfg.BlocksPerEpoch
	provGenesis.Params.NumberOfEpochsToStartReceivingRewards = cfg.EpochsToRewards
	provGenesis.Params.SlashMeterReplenishFraction = cfg.SlashFraction
	provGenesis.Params.SlashMeterReplenishPeriod = cfg.SlashPeriod
	provGenesis.Params.CcvTimeoutPeriod = cfg.CcvTimeout
	provGenesis.Params.ConsumerRewardDenomRegistrationFee = sdk.NewCoin(BondDenom, math.NewInt(10))
	genesis[providertypes.ModuleName] = cdc.MustMarshalJSON(&provGenesis)

	stateBytes, err := json.MarshalIndent(genesis, "", " ")
	if err != nil {
		panic(err)
	}
	const chainID = "provider"
	baseapp.SetChainID(chainID)(app.GetBaseApp())
	initReq := &abci.RequestInitChain{
		ChainId:         chainID,
		Validators:      []abci.ValidatorUpdate{},
		AppStateBytes:   stateBytes,
		ConsensusParams: simtestutil.DefaultConsensusParams,
		Time:            w.Now,
		InitialHeight:   1,
	}
	initRes, err := app.InitChain(initReq)
	if err != nil {
		panic(fmt.Errorf("provider InitChain: %w", err))
	}

	c := w.newChain(chainID, app, initRes.Validators)
	c.IsProvider = true
	c.PApp = app
	c.accountKeep = app.AccountKeeper
	c.Votes = cfg.Votes
	if cfg.Record {
		c.Rec = &ChainRecord{ChainID: chainID, Kind: "provider", Init: mustMarshal(initReq), InitValidators: initRes.Validators, InitDigest: sha(mustMarshal(initRes))}
	}
	w.P = c
	c.ProduceBlock(nil, nil)
}

func mustMarshal(m interface{ Marshal() ([]byte, error) }) []byte {
	bz, err := m.Marshal()
	if err != nil {
		panic(err)
	}
	return bz
}

// newChain wraps an initialised app in the consensus bookkeeping.
func (w *World) newChain(chainID string, app ibctesting.TestingApp, initVals []abci.ValidatorUpdate) *Chain {
	tmVals, err := cmttypes.PB2TM.ValidatorUpdates(initVals)
	if err != nil {
		panic(err)
	}
	valSet := cmttypes.NewValidatorSet(tmVals)
	coord := &ibctesting.Coordinator{T: nil, CurrentTime: w.Now, Chains: map[string]*ibctesting.TestChain{}}
	tc := &ibctesting.TestChain{
		TB:          w.T,
		Coordinator: coord,
		ChainID:     chainID,
		App:         app,
		ProposedHeader: cmtproto.Header{
			ChainID: chainID,
			Height:  1,
			Time:    w.Now.UTC(),
		},
		TxConfig:          app.GetTxConfig(),
		Codec:             app.AppCodec(),
		Vals:              valSet,
		NextVals:          valSet,
		Signers:           w.Signers,
		TrustedValidators: map[uint64]*cmttypes.ValidatorSet{},
	}
	c := &Chain{
		W: w, TC: tc, ID: chainID,
		Headers: map[int64]*ibctm.Header{},
		ValsAt:  map[int64]*cmttypes.ValidatorSet{},
		Engine:  map[string]int64{},
		rnd:     rand.New(rand.NewSource(w.Cfg.Seed + int64(len(chainID)))),
	}
	for _, u := range initVals {
		c.Engine[u.PubKey.String()] = u.Power
	}
	return c
}
