package sim

import (
	"fmt"
	"math/rand"
	"strings"
	"time"

	abci "github.com/cometbft/cometbft/abci/types"
	cmtproto "github.com/cometbft/cometbft/proto/tendermint/types"
	cmttypes "github.com/cometbft/cometbft/types"

	"github.com/cosmos/cosmos-sdk/crypto/keys/secp256k1"
	simtestutil "github.com/cosmos/cosmos-sdk/testutil/sims"
	sdk "github.com/cosmos/cosmos-sdk/types"
	authkeeper "github.com/cosmos/cosmos-sdk/x/auth/keeper"

	ibctm "github.com/cosmos/ibc-go/v10/modules/light-clients/07-tendermint"
	ibctesting "github.com/cosmos/ibc-go/v10/testing"

	appConsumer "github.com/cosmos/interchain-security/v7/app/consumer"
	appProvider "github.com/cosmos/interchain-security/v7/app/provider"
)

// Account is a secp256k1 account whose key the harness holds.
type Account struct {
	Name   string
	Priv   *secp256k1.PrivKey
	Addr   sdk.AccAddress
	AccNum uint64
	Seq    uint64
}

func NewAccount(name string, accNum uint64) *Account {
	pk := secp256k1.GenPrivKeyFromSecret([]byte("verif-acct-" + name))
	return &Account{Name: name, Priv: pk, Addr: sdk.AccAddress(pk.PubKey().Address()), AccNum: accNum}
}

// TxSpec is one transaction to be put in a block.
type TxSpec struct {
	Signer *Account
	Msgs   []sdk.Msg
	Tag    string // free-form label used by monitors
	Fee    sdk.Coins
	// OnResult is called with the outcome once the block is committed
	OnResult func(o TxOutcome) `json:"-"`
	// ForgeAccNum: sign with Signer's key but claim the named account as signer is impossible in the SDK
	// (signers are derived from msgs); forged attempts are expressed by Msgs naming somebody else.
}

// TxOutcome is what happened to a TxSpec.
type TxOutcome struct {
	Spec   TxSpec
	Result *abci.ExecTxResult
}

func (o TxOutcome) OK() bool { return o.Result != nil && o.Result.Code == 0 }

// BlockOpts are the per-block knobs of the block producer.
type BlockOpts struct {
	// Absent lists the consensus addresses (hex, upper) of validators of the previous block that did
	// NOT sign it. Only honoured when the chain has Votes enabled.
	Absent      map[string]bool
	Misbehavior []abci.Misbehavior
}

// Chain is one application instance plus the consensus-engine bookkeeping the harness does for it.
type Chain struct {
	W  *World
	TC *ibctesting.TestChain
	ID string

	IsProvider bool
	PApp       *appProvider.App
	CApp       *appConsumer.App
	// ConsumerID is the provider-side id of this consumer (empty for the provider chain)
	ConsumerID string

	Votes bool // supply DecidedLastCommit to FinalizeBlock

	PrevVals *cmttypes.ValidatorSet // validator set of the last committed block

	// Headers holds every committed header (by height); used by the relayer and by evidence builders.
	Headers map[int64]*ibctm.Header
	// ValsAt holds the validator set that was in force at a height (the signers of that block).
	ValsAt map[int64]*cmttypes.ValidatorSet

	// engine-side set: fold of InitChain validators and all ValidatorUpdates returned so far
	Engine map[string]int64 // key: pubkey string -> power

	LastRes     *abci.ResponseFinalizeBlock
	LastReq     *abci.RequestFinalizeBlock
	LastTxs     []TxOutcome
	Halted      bool
	HaltReason  string
	rnd         *rand.Rand
	hooks       []func(c *Chain, req *abci.RequestFinalizeBlock, res *abci.ResponseFinalizeBlock, txs []TxOutcome)
	accountKeep authkeeper.AccountKeeper
	relayer     *Account
	lastTime    time.Time
	user        *Account

	// recorder for the determinism replica
	Rec *ChainRecord
}

func (c *Chain) Height() int64 { return c.TC.App.LastBlockHeight() }

// Ctx returns an uncached context on the committed state, with the header of the block being proposed.
// Reads go through a cache-wrapped context whose writes are discarded: some keeper "getters" have side effects
// (e.g. GetConsumerInfractionUpdateTime removes the entry it finds), and the harness must never alter chain state.
func (c *Chain) Ctx() sdk.Context {
	ctx, _ := c.TC.GetContext().CacheContext()
	return ctx
}

// WriteCtx is the uncached context on the committed store; used only for deliberate out-of-band writes
// (a malicious consumer binary enqueueing hand-crafted packets).
func (c *Chain) WriteCtx() sdk.Context { return c.TC.GetContext() }

func (c *Chain) OnBlock(f func(c *Chain, req *abci.RequestFinalizeBlock, res *abci.ResponseFinalizeBlock, txs []TxOutcome)) {
	c.hooks = append(c.hooks, f)
}

// BuildTx signs and encodes a tx; the signer's local sequence is advanced.
func (c *Chain) BuildTx(spec TxSpec) ([]byte, error) {
	tx, err := simtestutil.GenSignedMockTx(
		c.rnd, c.TC.TxConfig, spec.Msgs, spec.Fee, 50_000_000, c.ID,
		[]uint64{spec.Signer.AccNum}, []uint64{spec.Signer.Seq}, spec.Signer.Priv,
	)
	if err != nil {
		return nil, err
	}
	bz, err := c.TC.TxConfig.TxEncoder()(tx)
	if err != nil {
		return nil, err
	}
	spec.Signer.Seq++
	return bz, nil
}

// ProduceBlock runs exactly one FinalizeBlock (at the world's current time) carrying the given txs, then Commit.
func (c *Chain) ProduceBlock(specs []TxSpec, opts *BlockOpts) []TxOutcome {
	if c.Halted {
		return nil
	}
	tc := c.TC
	// light clients need strictly increasing header times on a chain
	if !c.lastTime.IsZero() && !c.W.Now.After(c.lastTime) {
		c.W.Now = c.lastTime.Add(time.Nanosecond)
	}
	c.lastTime = c.W.Now
	tc.ProposedHeader.Time = c.W.Now.UTC()

	var txs [][]byte
	var kept []TxSpec
	signers := map[*Account]bool{}
	for _, s := range specs {
		bz, err := c.BuildTx(s)
		if err != nil {
			c.W.Infof("tx build failed on %s (%s): %v", c.ID, s.Tag, err)
			continue
		}
		txs = append(txs, bz)
		kept = append(kept, s)
		signers[s.Signer] = true
	}

	req := &abci.RequestFinalizeBlock{
		Height:             tc.ProposedHeader.Height,
		Time:               tc.ProposedHeader.GetTime(),
		NextValidatorsHash: tc.NextVals.Hash(),
		ProposerAddress:    tc.ProposedHeader.ProposerAddress,
		Txs:                txs,
	}
	if opts != nil {
		req.Misbehavior = opts.Misbehavior
	}
	if c.Votes && c.PrevVals != nil {
		ci := abci.CommitInfo{}
		for _, v := range c.PrevVals.Validators {
			flag := cmtproto.BlockIDFlagCommit
			if opts != nil && opts.Absent[v.Address.String()] {
				flag = cmtproto.BlockIDFlagAbsent
			}
			ci.Votes = append(ci.Votes, abci.VoteInfo{
				Validator:   abci.Validator{Address: v.Address, Power: v.VotingPower},
				BlockIdFlag: flag,
			})
		}
		req.DecidedLastCommit = ci
	}

	res, err := c.finalize(req)
	if err != nil {
		c.Halted = true
		c.HaltReason = fmt.Sprintf("FinalizeBlock height=%d: %v", req.Height, err)
		c.W.Violation("C19", "finalize-error:"+c.kind(), map[string]any{
			"chain": c.ID, "height": req.Height, "error": err.Error(),
		})
		return nil
	}
	if c.Rec != nil {
		c.Rec.add(req, res)
	}
	c.commit(res)

	outs := make([]TxOutcome, len(kept))
	for i := range kept {
		outs[i] = TxOutcome{Spec: kept[i], Result: res.TxResults[i]}
	}
	// resynchronise sequences with committed state (ante failures do not bump the sequence)
	ctx := c.Ctx()
	for a := range signers {
		if seq, err := c.accountKeep.GetSequence(ctx, a.Addr); err == nil {
			a.Seq = seq
		}
	}
	c.LastReq, c.LastRes, c.LastTxs = req, res, outs
	for _, o := range outs {
		if o.Spec.OnResult != nil {
			o.Spec.OnResult(o)
		}
	}
	for _, h := range c.hooks {
		h(c, req, res, outs)
	}
	return outs
}

func (c *Chain) kind() string {
	if c.IsProvider {
		return "provider"
	}
	return "consumer"
}

// finalize calls FinalizeBlock and converts panics into errors (a panic in Begin/EndBlock halts a real chain).
func (c *Chain) finalize(req *abci.RequestFinalizeBlock) (res *abci.ResponseFinalizeBlock, err error) {
	defer func() {
		if r := recover(); r != nil {
			err = fmt.Errorf("panic: %v", r)
		}
	}()
	return c.TC.App.FinalizeBlock(req)
}

func (c *Chain) commit(res *abci.ResponseFinalizeBlock) {
	tc := c.TC
	if _, err := tc.App.Commit(); err != nil {
		panic(err)
	}
	h := tc.ProposedHeader.Height
	tc.LatestCommittedHeader = tc.CurrentTMClientHeader()
	c.Headers[h] = tc.LatestCommittedHeader
	c.ValsAt[h] = tc.Vals
	tc.TrustedValidators[uint64(h)] = tc.NextVals

	c.PrevVals = tc.Vals
	tc.Vals = tc.NextVals
	nv, err := applyValSetChanges(tc.Vals, res.ValidatorUpdates)
	if err != nil {
		// A real consensus engine rejects these updates and the chain halts. This is the documented fate of a consumer
		// whose validators all left (opt-out / ineligible); whether the set was computed correctly is judged by the
		// C01/C02 oracles, so here it is only recorded and the chain is no longer produced.
		c.Halted = true
		c.HaltReason = fmt.Sprintf("engine rejected validator updates at height %d: %v", h, err)
		c.W.Op("chain %s halted: %s", c.ID, c.HaltReason)
		if strings.Contains(err.Error(), "empty set") {
			c.W.Event("C19", "chain-halted-by-engine:"+c.kind())
		} else {
			// updates a consensus engine cannot apply (removal of an unknown key, duplicates, ...) are never legitimate
			prop := "C01"
			if c.IsProvider {
				prop = "C15"
			}
			c.W.Violation(prop, "validator-updates-rejected-by-consensus-engine:"+c.kind(), map[string]any{"chain": c.ID, "height": h, "error": err.Error(), "updates": fmtUpdates(res.ValidatorUpdates)})
		}
		nv = tc.Vals
	}
	tc.NextVals = nv
	for _, u := range res.ValidatorUpdates {
		k := u.PubKey.String()
		if u.Power == 0 {
			delete(c.Engine, k)
		} else {
			c.Engine[k] = u.Power
		}
	}
	tc.Vals.IncrementProposerPriority(1)

	tc.ProposedHeader = cmtproto.Header{
		ChainID:            tc.ChainID,
		Height:             tc.App.LastBlockHeight() + 1,
		AppHash:            tc.App.LastCommitID().Hash,
		Time:               tc.ProposedHeader.Time,
		ValidatorsHash:     tc.Vals.Hash(),
		NextValidatorsHash: tc.NextVals.Hash(),
		ProposerAddress:    tc.Vals.Proposer.Address,
	}
}

func applyValSetChanges(valSet *cmttypes.ValidatorSet, valUpdates []abci.ValidatorUpdate) (vs *cmttypes.ValidatorSet, err error) {
	defer func() {
		if r := recover(); r != nil {
			err = fmt.Errorf("panic: %v", r)
		}
	}()
	updates, err := cmttypes.PB2TM.ValidatorUpdates(valUpdates)
	if err != nil {
		return nil, err
	}
	newVals := valSet.Copy()
	if err := newVals.UpdateWithChangeSet(updates); err != nil {
		return nil, err
	}
	return newVals, nil
}

func fmtUpdates(us []abci.ValidatorUpdate) []string {
	var out []string
	for _, u := range us {
		out = append(out, fmt.Sprintf("%s=%d", u.PubKey.String(), u.Power))
	}
	return out
}

// AdvanceTime moves the world clock.
func (w *World) AdvanceTime(d time.Duration) { w.Now = w.Now.Add(d) }
