package sim

import (
	"fmt"
	"sort"

	"cosmossdk.io/math"

	abci "github.com/cometbft/cometbft/abci/types"

	sdk "github.com/cosmos/cosmos-sdk/types"
	stakingtypes "github.com/cosmos/cosmos-sdk/x/staking/types"
)

// monC15: the provider's own consensus set is the top-M bonded validators.
type monC15 struct {
	w *World
	// recorded set read at PostEnd of the block being processed: pubkey string -> power
	recorded   map[string]int64
	recordedOK bool
	prevEngine map[string]int64
	lastM      int64
	lastBonded int
}

func init() { registerMonitor(func(w *World) Monitor { return &monC15{w: w} }) }

func (m *monC15) Name() string              { return "C15" }
func (m *monC15) PostBegin(ctx sdk.Context) {}
func (m *monC15) PreEnd(ctx sdk.Context)    {}

func (m *monC15) PostEnd(ctx sdk.Context) {
	w := m.w
	pk := w.P.PApp.ProviderKeeper
	rec, err := pk.GetLastProviderConsensusValSet(ctx)
	if err != nil {
		w.Violation("C15", "recorded-set-unreadable", map[string]any{"error": err.Error()})
		return
	}
	M := pk.GetMaxProviderConsensusValidators(ctx)
	snap := w.StakingSnapshot(ctx)
	byCons := map[string]SVal{}
	var bonded []SVal
	for _, v := range snap {
		byCons[consHex(v.ConsAddr)] = v
		if v.Bonded() {
			bonded = append(bonded, v)
		}
	}
	w.Eval("C15")
	m.recorded = map[string]int64{}
	m.recordedOK = true
	m.lastM, m.lastBonded = M, len(bonded)
	inSet := map[string]bool{}
	minIn := int64(-1)
	for _, r := range rec {
		m.recorded[pkStr(*r.PublicKey)] = r.Power
		sv, ok := byCons[consHex(r.ProviderConsAddr)]
		if !ok {
			w.Violation("C15", "recorded-validator-unknown", map[string]any{"cons": consHex(r.ProviderConsAddr)})
			continue
		}
		inSet[sv.Oper] = true
		if !sv.Bonded() {
			w.Violation("C15", "recorded-validator-not-bonded", map[string]any{"val": w.valName(sv.ConsAddr), "status": sv.Status.String()})
		}
		if pkStr(sv.PubKey) != pkStr(*r.PublicKey) {
			w.Violation("C15", "recorded-key-not-provider-key", map[string]any{"val": w.valName(sv.ConsAddr)})
		}
		if sv.LastPower != r.Power {
			w.Violation("C15", "recorded-power-not-current", map[string]any{"val": w.valName(sv.ConsAddr), "recorded": r.Power, "staking": sv.LastPower})
		}
		if minIn < 0 || r.Power < minIn {
			minIn = r.Power
		}
	}
	want := int(M)
	if len(bonded) < want {
		want = len(bonded)
	}
	if len(rec) != want {
		w.Violation("C15", "recorded-set-size", map[string]any{"size": len(rec), "M": M, "bonded": len(bonded)})
	}
	maxOut := int64(-1)
	var outName string
	for _, b := range bonded {
		if !inSet[b.Oper] && b.LastPower > maxOut {
			maxOut, outName = b.LastPower, w.valName(b.ConsAddr)
		}
	}
	if len(rec) > 0 && maxOut > minIn {
		w.Violation("C15", "not-top-M", map[string]any{"excluded": outName, "excluded_power": maxOut, "min_included": minIn, "M": M})
	}
	tie := maxOut >= 0 && maxOut == minIn
	rel := "M<bonded"
	if int(M) == len(bonded) {
		rel = "M=bonded"
	} else if int(M) > len(bonded) {
		rel = "M>bonded"
	}
	w.Case("C15", fmt.Sprintf("set:%s tieAtBoundary=%v", rel, tie))

	// staking views exposed to gov / mint must cover exactly the recorded validators
	var viewOpers []string
	sumTokens := math.ZeroInt()
	err = pk.IterateBondedValidatorsByPower(ctx, func(_ int64, v stakingtypes.ValidatorI) bool {
		viewOpers = append(viewOpers, v.GetOperator())
		sumTokens = sumTokens.Add(v.GetBondedTokens())
		return false
	})
	if err != nil {
		w.Violation("C15", "view-iteration-error", map[string]any{"error": err.Error()})
		return
	}
	viewSet := map[string]bool{}
	for _, o := range viewOpers {
		viewSet[o] = true
	}
	if len(viewSet) != len(inSet) {
		w.Violation("C15", "view-covers-different-validators", map[string]any{"view": len(viewSet), "recorded": len(inSet)})
	} else {
		for o := range inSet {
			if !viewSet[o] {
				w.Violation("C15", "view-covers-different-validators", map[string]any{"missing": o})
				break
			}
		}
	}
	tbt, err := pk.TotalBondedTokens(ctx)
	if err != nil || !tbt.Equal(sumTokens) {
		w.Violation("C15", "view-total-bonded-tokens", map[string]any{"total": fmt.Sprint(tbt), "sum_over_set": sumTokens.String()})
	}
	expTokens := math.ZeroInt()
	for _, b := range bonded {
		if inSet[b.Oper] {
			expTokens = expTokens.Add(b.Tokens)
		}
	}
	if !expTokens.Equal(tbt) {
		w.Violation("C15", "view-total-bonded-tokens-vs-set", map[string]any{"total": tbt.String(), "tokens_of_set": expTokens.String()})
	}
	supply, _ := pk.StakingTokenSupply(ctx)
	ratio, err := pk.BondedRatio(ctx)
	if err == nil && supply.IsPositive() {
		exp := math.LegacyNewDecFromInt(expTokens).QuoInt(supply)
		if !exp.Equal(ratio) {
			w.Violation("C15", "view-bonded-ratio", map[string]any{"ratio": ratio.String(), "expected": exp.String()})
		}
	}
}

func (m *monC15) AfterBlock(c *Chain, req *abci.RequestFinalizeBlock, res *abci.ResponseFinalizeBlock, txs []TxOutcome) {
	if !c.IsProvider || !m.recordedOK {
		return
	}
	w := m.w
	// engine-side set must equal the recorded set
	w.Eval("C15")
	if !sameSet(c.Engine, m.recorded) {
		w.Violation("C15", "engine-set-diverged", map[string]any{
			"height": req.Height, "engine": setStr(c.Engine), "recorded": setStr(m.recorded), "updates": fmtUpdates(res.ValidatorUpdates)})
	}
	if int64(len(c.Engine)) > m.lastM {
		w.Violation("C15", "engine-set-exceeds-M", map[string]any{"height": req.Height, "size": len(c.Engine), "M": m.lastM})
	}
	// updates must be exactly the difference to the previous engine set
	if m.prevEngine != nil {
		seen := map[string]bool{}
		for _, u := range res.ValidatorUpdates {
			k := u.PubKey.String()
			if seen[k] {
				w.Violation("C15", "duplicate-update", map[string]any{"height": req.Height, "key": k})
			}
			seen[k] = true
			old, had := m.prevEngine[k]
			if (u.Power == 0 && !had) || (had && old == u.Power) {
				w.Violation("C15", "redundant-update", map[string]any{"height": req.Height, "key": k, "power": u.Power})
			}
		}
	}
	if len(res.ValidatorUpdates) > 0 {
		w.Event("C15", "blocks-with-updates")
		kind := "power"
		for _, u := range res.ValidatorUpdates {
			if u.Power == 0 {
				kind = "leave"
			} else if _, had := m.prevEngine[u.PubKey.String()]; !had && m.prevEngine != nil {
				if kind != "leave" {
					kind = "join"
				}
			}
		}
		w.Case("C15", fmt.Sprintf("update:%s M-vs-bonded=%d", kind, cmpInt(int(m.lastM), m.lastBonded)))
		w.Sample("C15", map[string]any{"height": req.Height, "updates": fmtUpdates(res.ValidatorUpdates), "M": m.lastM, "bonded": m.lastBonded})
	}
	m.prevEngine = copySet(c.Engine)
}

func cmpInt(a, b int) int {
	if a < b {
		return -1
	}
	if a > b {
		return 1
	}
	return 0
}

func sameSet(a, b map[string]int64) bool {
	if len(a) != len(b) {
		return false
	}
	for k, v := range a {
		if b[k] != v {
			return false
		}
	}
	return true
}

func copySet(a map[string]int64) map[string]int64 {
	o := make(map[string]int64, len(a))
	for k, v := range a {
		o[k] = v
	}
	return o
}

func setStr(a map[string]int64) []string {
	var out []string
	for k, v := range a {
		out = append(out, fmt.Sprintf("%x=%d", shortKey(k), v))
	}
	sort.Strings(out)
	return out
}

func shortKey(k string) string {
	if len(k) > 24 {
		return k[len(k)-12:]
	}
	return k
}
