package sim

import (
	"context"
	"errors"
	"fmt"
	"runtime"
	"strings"
	"time"

	"cosmossdk.io/math"

	authcodec "github.com/cosmos/cosmos-sdk/x/auth/codec"
	authtypes "github.com/cosmos/cosmos-sdk/x/auth/types"
	govtypes "github.com/cosmos/cosmos-sdk/x/gov/types"

	sdk "github.com/cosmos/cosmos-sdk/types"
	stakingtypes "github.com/cosmos/cosmos-sdk/x/staking/types"

	clienttypes "github.com/cosmos/ibc-go/v10/modules/core/02-client/types"
	conntypes "github.com/cosmos/ibc-go/v10/modules/core/03-connection/types"
	channeltypes "github.com/cosmos/ibc-go/v10/modules/core/04-channel/types"

	appProvider "github.com/cosmos/interchain-security/v7/app/provider"
	providerkeeper "github.com/cosmos/interchain-security/v7/x/ccv/provider/keeper"
	providertypes "github.com/cosmos/interchain-security/v7/x/ccv/provider/types"
	ccv "github.com/cosmos/interchain-security/v7/x/ccv/types"
)

// Call is one call of the provider module into another module (OBS-CALL).
type Call struct {
	Scope    string `json:"scope,omitempty"` // per-consumer operation the call belongs to (launch|delete|rewards|send)
	Method   string `json:"method"`
	Args     string `json:"args,omitempty"`
	InBlock  bool   `json:"in_block_processing"`
	Injected bool   `json:"injected,omitempty"`
	Err      string `json:"err,omitempty"`
}

// CallRec logs boundary calls and optionally injects one error.
type CallRec struct {
	Calls []Call
	// InBlock is true while the application's BeginBlocker or EndBlocker runs
	InBlock bool
	// Armed: inject an error at the InjectAt-th (0-based) in-block call of this block that belongs to Scope
	Armed    bool
	InjectAt int
	Scope    string
	counter  int
	Injected *Call
	// Slashes etc. are kept in structured form for the punishment oracles
	Slashes []SlashCall
	Jails   []string // consensus address hex
	Until   []JailUntilCall
	Tombs   []string
}

type SlashCall struct {
	Cons       string
	Height     int64
	Power      int64
	Fraction   math.LegacyDec
	Infraction stakingtypes.Infraction
}

type JailUntilCall struct {
	Cons  string
	Until time.Time
}

var errInjected = errors.New("verif: injected fault")

// ResetBlock clears the per-block log.
func (r *CallRec) ResetBlock() {
	r.Calls, r.Slashes, r.Jails, r.Until, r.Tombs = nil, nil, nil, nil, nil
	r.counter = 0
	r.Injected = nil
}

// hit records a call and reports whether an error must be injected.
func (r *CallRec) hit(method, args string) bool {
	c := Call{Method: method, Args: args, InBlock: r.InBlock}
	inject := false
	if r.InBlock {
		c.Scope = callScope()
		if r.Scope == "" || c.Scope == r.Scope {
			if r.Armed && r.counter == r.InjectAt {
				inject = true
				c.Injected = true
			}
			r.counter++
		}
	}
	r.Calls = append(r.Calls, c)
	if inject {
		r.Injected = &r.Calls[len(r.Calls)-1]
	}
	return inject
}

// callScope inspects the call stack: which per-consumer operation of the provider module is running?
func callScope() string {
	pcs := make([]uintptr, 48)
	n := runtime.Callers(3, pcs)
	frames := runtime.CallersFrames(pcs[:n])
	for {
		fr, more := frames.Next()
		switch {
		case strings.HasSuffix(fr.Function, "keeper.Keeper.LaunchConsumer"):
			return "launch"
		case strings.HasSuffix(fr.Function, "keeper.Keeper.DeleteConsumerChain"):
			return "delete"
		case strings.HasSuffix(fr.Function, "keeper.Keeper.AllocateConsumerRewards"):
			return "rewards"
		case strings.HasSuffix(fr.Function, "keeper.Keeper.SendVSCPacketsToChain"):
			return "send"
		}
		if !more {
			return ""
		}
	}
}

// InBlockCalls returns the in-block calls of the current block.
func (r *CallRec) InBlockCalls() []Call {
	var out []Call
	for _, c := range r.Calls {
		if c.InBlock {
			out = append(out, c)
		}
	}
	return out
}

// ---- decorated keepers

type recStaking struct {
	ccv.StakingKeeper
	r *CallRec
}

func (k recStaking) UnbondingTime(ctx context.Context) (time.Duration, error) {
	if k.r.hit("staking.UnbondingTime", "") {
		return 0, errInjected
	}
	return k.StakingKeeper.UnbondingTime(ctx)
}

func (k recStaking) GetHistoricalInfo(ctx context.Context, height int64) (stakingtypes.HistoricalInfo, error) {
	if k.r.hit("staking.GetHistoricalInfo", fmt.Sprint(height)) {
		return stakingtypes.HistoricalInfo{}, errInjected
	}
	return k.StakingKeeper.GetHistoricalInfo(ctx, height)
}

func (k recStaking) GetValidatorByConsAddr(ctx context.Context, consAddr sdk.ConsAddress) (stakingtypes.Validator, error) {
	if k.r.hit("staking.GetValidatorByConsAddr", "") {
		return stakingtypes.Validator{}, errInjected
	}
	return k.StakingKeeper.GetValidatorByConsAddr(ctx, consAddr)
}

func (k recStaking) GetValidator(ctx context.Context, addr sdk.ValAddress) (stakingtypes.Validator, error) {
	if k.r.hit("staking.GetValidator", "") {
		return stakingtypes.Validator{}, errInjected
	}
	return k.StakingKeeper.GetValidator(ctx, addr)
}

func (k recStaking) GetBondedValidatorsByPower(ctx context.Context) ([]stakingtypes.Validator, error) {
	if k.r.hit("staking.GetBondedValidatorsByPower", "") {
		return nil, errInjected
	}
	return k.StakingKeeper.GetBondedValidatorsByPower(ctx)
}

func (k recStaking) MaxValidators(ctx context.Context) (uint32, error) {
	if k.r.hit("staking.MaxValidators", "") {
		return 0, errInjected
	}
	return k.StakingKeeper.MaxValidators(ctx)
}

func (k recStaking) MinCommissionRate(ctx context.Context) (math.LegacyDec, error) {
	if k.r.hit("staking.MinCommissionRate", "") {
		return math.LegacyDec{}, errInjected
	}
	return k.StakingKeeper.MinCommissionRate(ctx)
}

func (k recStaking) GetLastValidatorPower(ctx context.Context, operator sdk.ValAddress) (int64, error) {
	if k.r.hit("staking.GetLastValidatorPower", "") {
		return 0, errInjected
	}
	return k.StakingKeeper.GetLastValidatorPower(ctx, operator)
}

func (k recStaking) SlashWithInfractionReason(ctx context.Context, consAddr sdk.ConsAddress, infractionHeight, power int64, slashFactor math.LegacyDec, infraction stakingtypes.Infraction) (math.Int, error) {
	k.r.Slashes = append(k.r.Slashes, SlashCall{Cons: consHex(consAddr), Height: infractionHeight, Power: power, Fraction: slashFactor, Infraction: infraction})
	if k.r.hit("staking.SlashWithInfractionReason", fmt.Sprintf("%s h=%d p=%d f=%s %s", consHex(consAddr), infractionHeight, power, slashFactor, infraction)) {
		return math.ZeroInt(), errInjected
	}
	return k.StakingKeeper.SlashWithInfractionReason(ctx, consAddr, infractionHeight, power, slashFactor, infraction)
}

func (k recStaking) Jail(ctx context.Context, consAddr sdk.ConsAddress) error {
	k.r.Jails = append(k.r.Jails, consHex(consAddr))
	if k.r.hit("staking.Jail", consHex(consAddr)) {
		return errInjected
	}
	return k.StakingKeeper.Jail(ctx, consAddr)
}

type recSlashing struct {
	ccv.SlashingKeeper
	r *CallRec
}

func (k recSlashing) JailUntil(ctx context.Context, consAddr sdk.ConsAddress, t time.Time) error {
	k.r.Until = append(k.r.Until, JailUntilCall{Cons: consHex(consAddr), Until: t})
	if k.r.hit("slashing.JailUntil", consHex(consAddr)+" "+t.UTC().Format(time.RFC3339Nano)) {
		return errInjected
	}
	return k.SlashingKeeper.JailUntil(ctx, consAddr, t)
}

func (k recSlashing) Tombstone(ctx context.Context, consAddr sdk.ConsAddress) error {
	k.r.Tombs = append(k.r.Tombs, consHex(consAddr))
	if k.r.hit("slashing.Tombstone", consHex(consAddr)) {
		return errInjected
	}
	return k.SlashingKeeper.Tombstone(ctx, consAddr)
}

type recBank struct {
	ccv.BankKeeper
	r *CallRec
}

func (k recBank) SendCoinsFromModuleToModule(ctx context.Context, senderModule, recipientModule string, amt sdk.Coins) error {
	if k.r.hit("bank.SendCoinsFromModuleToModule", fmt.Sprintf("%s->%s %s", senderModule, recipientModule, amt)) {
		return errInjected
	}
	return k.BankKeeper.SendCoinsFromModuleToModule(ctx, senderModule, recipientModule, amt)
}

type recDistr struct {
	ccv.DistributionKeeper
	r *CallRec
}

func (k recDistr) FundCommunityPool(ctx context.Context, amount sdk.Coins, sender sdk.AccAddress) error {
	if k.r.hit("distribution.FundCommunityPool", amount.String()) {
		return errInjected
	}
	return k.DistributionKeeper.FundCommunityPool(ctx, amount, sender)
}

func (k recDistr) GetCommunityTax(ctx context.Context) (math.LegacyDec, error) {
	if k.r.hit("distribution.GetCommunityTax", "") {
		return math.LegacyZeroDec(), errInjected
	}
	return k.DistributionKeeper.GetCommunityTax(ctx)
}

func (k recDistr) AllocateTokensToValidator(ctx context.Context, validator stakingtypes.ValidatorI, reward sdk.DecCoins) error {
	if k.r.hit("distribution.AllocateTokensToValidator", validator.GetOperator()+" "+reward.String()) {
		return errInjected
	}
	return k.DistributionKeeper.AllocateTokensToValidator(ctx, validator, reward)
}

type recClient struct {
	ccv.ClientKeeper
	r *CallRec
}

func (k recClient) CreateClient(ctx sdk.Context, clientType string, clientState, consensusState []byte) (string, error) {
	if k.r.hit("client.CreateClient", clientType) {
		return "", errInjected
	}
	return k.ClientKeeper.CreateClient(ctx, clientType, clientState, consensusState)
}

type recConn struct {
	ccv.ConnectionKeeper
	r *CallRec
}

func (k recConn) GetConnection(ctx sdk.Context, connectionID string) (conntypes.ConnectionEnd, bool) {
	if k.r.hit("connection.GetConnection", connectionID) {
		return conntypes.ConnectionEnd{}, false
	}
	return k.ConnectionKeeper.GetConnection(ctx, connectionID)
}

type recChannel struct {
	ccv.ChannelKeeper
	r *CallRec
}

func (k recChannel) SendPacket(ctx sdk.Context, sourcePort, sourceChannel string, timeoutHeight clienttypes.Height, timeoutTimestamp uint64, data []byte) (uint64, error) {
	if k.r.hit("channel.SendPacket", sourcePort+"/"+sourceChannel) {
		return 0, errInjected
	}
	return k.ChannelKeeper.SendPacket(ctx, sourcePort, sourceChannel, timeoutHeight, timeoutTimestamp, data)
}

func (k recChannel) ChanCloseInit(ctx sdk.Context, portID, channelID string) error {
	if k.r.hit("channel.ChanCloseInit", portID+"/"+channelID) {
		return errInjected
	}
	return k.ChannelKeeper.ChanCloseInit(ctx, portID, channelID)
}

func (k recChannel) GetChannel(ctx sdk.Context, srcPort, srcChan string) (channeltypes.Channel, bool) {
	if k.r.hit("channel.GetChannel", srcPort+"/"+srcChan) {
		return channeltypes.Channel{}, false
	}
	return k.ChannelKeeper.GetChannel(ctx, srcPort, srcChan)
}

// InstallCallRecorder rebuilds the provider keeper of an app with decorated dependencies. The module, the
// msg server, the query server and the staking/gov hooks reach the keeper through &app.ProviderKeeper and
// therefore see the decorated one.
func InstallCallRecorder(app *appProvider.App) *CallRec {
	r := &CallRec{}
	k := providerkeeper.NewKeeper(
		app.AppCodec(),
		app.GetKey(providertypes.StoreKey),
		app.GetSubspace(providertypes.ModuleName),
		recChannel{app.IBCKeeper.ChannelKeeper, r},
		recConn{app.IBCKeeper.ConnectionKeeper, r},
		recClient{app.IBCKeeper.ClientKeeper, r},
		recStaking{app.StakingKeeper, r},
		recSlashing{app.SlashingKeeper, r},
		app.AccountKeeper,
		recDistr{app.DistrKeeper, r},
		recBank{app.BankKeeper, r},
		*app.GovKeeper,
		authtypes.NewModuleAddress(govtypes.ModuleName).String(),
		authcodec.NewBech32Codec(sdk.GetConfig().GetBech32ValidatorAddrPrefix()),
		authcodec.NewBech32Codec(sdk.GetConfig().GetBech32ConsensusAddrPrefix()),
		authtypes.FeeCollectorName,
	)
	app.ProviderKeeper = k
	return r
}
