package sim

import (
	"fmt"
	"time"

	"cosmossdk.io/math"

	cryptocodec "github.com/cosmos/cosmos-sdk/crypto/codec"
	sdk "github.com/cosmos/cosmos-sdk/types"
	slashingtypes "github.com/cosmos/cosmos-sdk/x/slashing/types"
	stakingtypes "github.com/cosmos/cosmos-sdk/x/staking/types"

	providertypes "github.com/cosmos/interchain-security/v7/x/ccv/provider/types"
)

// Op is a generated operation: one or more txs for the next provider block.
type Op struct {
	Name  string
	Specs []TxSpec
	Solo  bool
}

type opGen struct {
	name   string
	weight int
	gen    func(w *World) *Op
}

func (w *World) createdVals() []*Val {
	var out []*Val
	for _, v := range w.Vals {
		if v.Created {
			out = append(out, v)
		}
	}
	return out
}

// inactiveBondedVals returns the created validators that are bonded but outside the provider's own consensus set.
func (w *World) inactiveBondedVals() []*Val {
	ctx := w.P.Ctx()
	rec, err := w.P.PApp.ProviderKeeper.GetLastProviderConsensusValSet(ctx)
	if err != nil {
		return nil
	}
	active := map[string]bool{}
	for _, r := range rec {
		active[consHex(r.ProviderConsAddr)] = true
	}
	var out []*Val
	for _, sv := range w.StakingSnapshot(ctx) {
		if sv.Bonded() && !sv.Jailed && !active[consHex(sv.ConsAddr)] {
			for _, v := range w.createdVals() {
				if consHex(v.ConsAddr()) == consHex(sv.ConsAddr) {
					out = append(out, v)
				}
			}
		}
	}
	return out
}

func (w *World) randVal() *Val {
	vs := w.createdVals()
	return vs[w.Rnd.Intn(len(vs))]
}

func (w *World) randDelegator() *Account {
	names := []string{"deleg0", "deleg1", "deleg2"}
	return w.Accts[names[w.Rnd.Intn(len(names))]]
}

func (w *World) randOwner() *Account {
	names := []string{"owner0", "owner1", "owner2"}
	return w.Accts[names[w.Rnd.Intn(len(names))]]
}

var amountMenu = []int64{1, 999_999, 1_000_000, 1_000_001, 1_500_000, 2_000_000, 3_333_333, 7_000_000, 12_345_678, 2_999_999, 4_000_000, 5_000_001}

func (w *World) randAmount() int64 { return amountMenu[w.Rnd.Intn(len(amountMenu))] }

// activeConsumers returns shadow consumers currently in one of the given phases.
func (w *World) consumersIn(phases ...providertypes.ConsumerPhase) []*CInfo {
	var out []*CInfo
	for _, ci := range w.Shadow.Consumers {
		p := w.Phase(ci.ID)
		for _, q := range phases {
			if p == q {
				out = append(out, ci)
				break
			}
		}
	}
	return out
}

func (w *World) randConsumer(phases ...providertypes.ConsumerPhase) *CInfo {
	cs := w.consumersIn(phases...)
	if len(cs) == 0 {
		return nil
	}
	return cs[w.Rnd.Intn(len(cs))]
}

var allActive = []providertypes.ConsumerPhase{providertypes.CONSUMER_PHASE_REGISTERED, providertypes.CONSUMER_PHASE_INITIALIZED, providertypes.CONSUMER_PHASE_LAUNCHED}
var anyPhase = []providertypes.ConsumerPhase{providertypes.CONSUMER_PHASE_REGISTERED, providertypes.CONSUMER_PHASE_INITIALIZED, providertypes.CONSUMER_PHASE_LAUNCHED, providertypes.CONSUMER_PHASE_STOPPED, providertypes.CONSUMER_PHASE_DELETED}

func one(name string, signer *Account, msgs ...sdk.Msg) *Op {
	return &Op{Name: name, Specs: []TxSpec{{Signer: signer, Msgs: msgs, Tag: name}}}
}

// ---- staking operations

func opDelegate(w *World) *Op {
	d, v, amt := w.randDelegator(), w.randVal(), w.randAmount()
	w.Op("delegate %s -> val%d %d", d.Name, v.Idx, amt)
	return one("delegate", d, MsgDelegate(d, v, amt))
}

func (w *World) delegationTokens(d *Account, v *Val) int64 {
	sk := w.P.PApp.StakingKeeper
	ctx := w.P.Ctx()
	del, err := sk.GetDelegation(ctx, d.Addr, v.ValAddr)
	if err != nil {
		return 0
	}
	val, err := sk.GetValidator(ctx, v.ValAddr)
	if err != nil {
		return 0
	}
	return val.TokensFromShares(del.Shares).TruncateInt64()
}

func opUndelegate(w *World) *Op {
	var d *Account
	v := w.randVal()
	if w.Rnd.Intn(3) == 0 {
		d = v.Oper
	} else {
		d = w.randDelegator()
	}
	have := w.delegationTokens(d, v)
	if have <= 1 {
		return nil
	}
	var amt int64
	switch w.Rnd.Intn(4) {
	case 0:
		amt = have // everything (for an operator: removes self delegation -> validator jailed/unbonds)
		if d == v.Oper && w.Rnd.Intn(4) != 0 {
			amt = have / 2
		}
	case 1:
		amt = have / 2
	case 2:
		amt = 1
	default:
		amt = have - 1
	}
	if amt <= 0 {
		return nil
	}
	w.Op("undelegate %s <- val%d %d of %d", d.Name, v.Idx, amt, have)
	return one("undelegate", d, MsgUndelegate(d, v, amt))
}

// opRetireValidator makes every delegator (the operator included) undelegate everything from one validator: it leaves the
// bonded set and, once its unbonding period has elapsed with no shares left, x/staking removes it (AfterValidatorRemoved).
func opRetireValidator(w *World) *Op {
	sk := w.P.PApp.StakingKeeper
	ctx := w.P.Ctx()
	bonded := 0
	for _, sv := range w.StakingSnapshot(ctx) {
		if sv.Bonded() && !sv.Jailed {
			bonded++
		}
	}
	if bonded < 5 {
		return nil
	}
	v := w.randVal()
	if v.Idx < 3 { // keep a stable core so that chains stay alive
		return nil
	}
	val, err := sk.GetValidator(ctx, v.ValAddr)
	if err != nil {
		return nil
	}
	dels, err := sk.GetValidatorDelegations(ctx, v.ValAddr)
	if err != nil || len(dels) == 0 {
		return nil
	}
	byAddr := map[string]*Account{}
	for _, a := range w.AcctList {
		byAddr[a.Addr.String()] = a
	}
	op := &Op{Name: "retire-validator"}
	for _, d := range dels {
		a := byAddr[d.DelegatorAddress]
		amt := val.TokensFromShares(d.Shares).TruncateInt64()
		if a == nil || amt <= 0 {
			return nil
		}
		op.Specs = append(op.Specs, TxSpec{Signer: a, Msgs: []sdk.Msg{MsgUndelegate(a, v, amt)}, Tag: "undelegate:retire"})
	}
	w.Op("retire validator val%d: %d delegators undelegate everything", v.Idx, len(op.Specs))
	return op
}

func opRedelegate(w *World) *Op {
	d := w.randDelegator()
	src, dst := w.randVal(), w.randVal()
	if src == dst {
		return nil
	}
	have := w.delegationTokens(d, src)
	if have <= 1 {
		return nil
	}
	amt := have / int64(1+w.Rnd.Intn(3))
	w.Op("redelegate %s val%d -> val%d %d", d.Name, src.Idx, dst.Idx, amt)
	return one("redelegate", d, MsgRedelegate(d, src, dst, amt))
}

func opUnjail(w *World) *Op {
	sk := w.P.PApp.StakingKeeper
	ctx := w.P.Ctx()
	for _, i := range w.Rnd.Perm(len(w.Vals)) {
		v := w.Vals[i]
		if !v.Created {
			continue
		}
		val, err := sk.GetValidator(ctx, v.ValAddr)
		if err != nil || !val.Jailed {
			continue
		}
		w.Op("unjail val%d", v.Idx)
		return one("unjail", v.Oper, slashingtypes.NewMsgUnjail(v.ValAddr.String()))
	}
	return nil
}

// opCreateValidator creates a validator from a spare slot; with some probability it uses a pooled key
// (which may be known on a consumer: the creation must then fail).
func opCreateValidator(w *World) *Op {
	for _, v := range w.Vals {
		if v.Created {
			continue
		}
		key := v.Key
		hostile := false
		if len(w.KeyPool) > 0 && w.Rnd.Intn(3) == 0 {
			key = w.KeyPool[w.Rnd.Intn(len(w.KeyPool))]
			hostile = true
		}
		pk, err := cryptocodec.FromCmtPubKeyInterface(key.Priv.PubKey())
		if err != nil {
			panic(err)
		}
		amt := w.randAmount() + 1_000_000
		msg, err := stakingtypes.NewMsgCreateValidator(v.ValAddr.String(), pk, coin(amt),
			stakingtypes.Description{Moniker: fmt.Sprintf("val%d", v.Idx)},
			stakingtypes.NewCommissionRates(math.LegacyNewDecWithPrec(1, 1), math.LegacyOneDec(), math.LegacyOneDec()), math.OneInt())
		if err != nil {
			panic(err)
		}
		w.Op("create-validator val%d key=%s hostile=%v amt=%d", v.Idx, key.Name, hostile, amt)
		op := one("create-validator", v.Oper, msg)
		op.Specs[0].Tag = "create-validator:" + key.Name
		op.Solo = true
		return op
	}
	return nil
}

// ---- consumer lifecycle operations

func (w *World) randSpawn() (time.Time, string) {
	switch w.Rnd.Intn(7) {
	case 0:
		return time.Time{}, "zero"
	case 1:
		return w.Now.Add(-time.Hour), "past"
	case 2:
		return w.Now, "now"
	case 3:
		return w.Now.Add(w.BlockInterval()), "next"
	case 4:
		return w.Now.Add(time.Duration(1+w.Rnd.Intn(60)) * time.Second), "soon"
	case 5:
		return w.Now.Add(time.Duration(w.Rnd.Intn(6)) * 10 * time.Second).Truncate(10 * time.Second), "shared"
	default:
		return w.Now.Add(10 * time.Hour), "far"
	}
}

func (w *World) randConsAddrs(max int) []string {
	var out []string
	n := w.Rnd.Intn(max + 1)
	for i := 0; i < n; i++ {
		if w.Rnd.Intn(6) == 0 {
			out = append(out, w.KeyPool[w.Rnd.Intn(len(w.KeyPool))].Addr.String()) // unknown address
			continue
		}
		out = append(out, w.Vals[w.Rnd.Intn(len(w.Vals))].ConsAddr().String())
	}
	return out
}

func (w *World) randPowerShaping() *providertypes.PowerShapingParameters {
	ps := &providertypes.PowerShapingParameters{}
	if w.Rnd.Intn(2) == 0 {
		ps.AllowInactiveVals = true
	}
	if w.Rnd.Intn(3) == 0 {
		ps.ValidatorSetCap = uint32(1 + w.Rnd.Intn(w.Cfg.NumVals))
	}
	if w.Rnd.Intn(3) == 0 {
		ps.ValidatorsPowerCap = []uint32{1, 10, 20, 34, 50, 99}[w.Rnd.Intn(6)]
	}
	if w.Rnd.Intn(4) == 0 {
		ps.Allowlist = w.randConsAddrs(w.Cfg.NumVals)
	}
	if w.Rnd.Intn(4) == 0 {
		ps.Denylist = w.randConsAddrs(2)
	}
	if w.Rnd.Intn(2) == 0 {
		ps.Prioritylist = w.randConsAddrs(4)
	}
	if w.Rnd.Intn(4) == 0 {
		ps.MinStake = uint64(w.Cfg.Tokens[w.Rnd.Intn(len(w.Cfg.Tokens))]) + uint64(w.Rnd.Intn(3)) - 1
	}
	return ps
}

func (w *World) randInfraction(partial bool) *providertypes.InfractionParameters {
	mk := func() *providertypes.SlashJailParameters {
		return &providertypes.SlashJailParameters{
			SlashFraction: math.LegacyNewDecWithPrec(int64(1+w.Rnd.Intn(50)), 2),
			JailDuration:  time.Duration(1+w.Rnd.Intn(100)) * time.Second,
			Tombstone:     w.Rnd.Intn(2) == 0,
		}
	}
	ip := &providertypes.InfractionParameters{DoubleSign: mk(), Downtime: mk()}
	ip.Downtime.Tombstone = false
	if partial {
		switch w.Rnd.Intn(3) {
		case 0:
			ip.DoubleSign = nil
		case 1:
			ip.Downtime = nil
		}
	}
	return ip
}

func opCreateConsumer(w *World) *Op {
	owner := w.randOwner()
	spawn, cls := w.randSpawn()
	init := DefaultInitParams(spawn, w.Cfg.ConsumerUnbonding)
	var ps *providertypes.PowerShapingParameters
	if w.Rnd.Intn(2) == 0 {
		ps = w.randPowerShaping()
	}
	var inf *providertypes.InfractionParameters
	if w.Rnd.Intn(3) == 0 {
		inf = w.randInfraction(true)
	}
	chainID := fmt.Sprintf("dorm%d", w.Rnd.Intn(6)) // deliberately few chain ids: collisions are allowed
	var ip *providertypes.ConsumerInitializationParameters = init
	if w.Rnd.Intn(6) == 0 {
		ip = nil
		chainID = "dorm-1" // the default initial height has revision 1
	}
	// sometimes only bonded validators outside the provider's own consensus set opt in, on a consumer that admits inactive
	// validators: its set is non-empty but contains no active provider validator, so the launch must fall back
	var onlyInactive []*Val
	if w.Rnd.Intn(5) == 0 {
		onlyInactive = w.inactiveBondedVals()
		if len(onlyInactive) > 0 {
			ps = &providertypes.PowerShapingParameters{AllowInactiveVals: true}
			cls += "+only-inactive-opt-ins"
		}
	}
	w.Op("create-consumer owner=%s chain=%s spawn=%s", owner.Name, chainID, cls)
	op := one("create-consumer", owner, MsgCreateConsumer(owner, chainID, ip, ps, inf))
	// often some validators opt in right away (same block, after the creation), so that the launch can succeed
	if n, ok := w.P.PApp.ProviderKeeper.GetConsumerId(w.P.Ctx()); (ok || n == 0) && (w.Rnd.Intn(3) != 0 || len(onlyInactive) > 0) {
		id := fmt.Sprint(n + uint64(w.createsThisStep))
		if len(onlyInactive) > 0 {
			for _, v := range onlyInactive {
				op.Specs = append(op.Specs, TxSpec{Signer: v.Oper, Msgs: []sdk.Msg{MsgOptIn(v, id, nil)}, Tag: "opt-in"})
			}
			w.createsThisStep++
			return op
		}
		for _, i := range w.Rnd.Perm(len(w.Vals))[:1+w.Rnd.Intn(3)] {
			v := w.Vals[i]
			if v.Created {
				op.Specs = append(op.Specs, TxSpec{Signer: v.Oper, Msgs: []sdk.Msg{MsgOptIn(v, id, nil)}, Tag: "opt-in"})
			}
		}
		// sometimes the owner updates the consumer it has just created, in the same block (before any BeginBlock can launch it)
		if w.Rnd.Intn(3) == 0 {
			upd := &providertypes.MsgUpdateConsumer{Owner: owner.Addr.String(), ConsumerId: id}
			switch w.Rnd.Intn(3) {
			case 0:
				md := Metadata("same-block")
				upd.Metadata = &md
			case 1:
				sp, _ := w.randSpawn()
				upd.InitializationParameters = DefaultInitParams(sp, w.Cfg.ConsumerUnbonding)
			default:
				upd.PowerShapingParameters = w.randPowerShaping()
			}
			if ip != nil || upd.InitializationParameters == nil {
				op.Specs = append(op.Specs, TxSpec{Signer: owner, Msgs: []sdk.Msg{upd}, Tag: "update-consumer:same-block"})
			}
		}
	}
	w.createsThisStep++
	return op
}

func opUpdateConsumer(w *World) *Op {
	ci := w.randConsumer(allActive...)
	if ci == nil || ci.Owner == nil {
		return nil
	}
	msg := &providertypes.MsgUpdateConsumer{Owner: ci.Owner.Addr.String(), ConsumerId: ci.ID}
	phase := w.Phase(ci.ID)
	prelaunch := phase != providertypes.CONSUMER_PHASE_LAUNCHED
	what := ""
	switch w.Rnd.Intn(6) {
	case 0:
		msg.PowerShapingParameters = w.randPowerShaping()
		what = "power-shaping"
		// sometimes: the stored parameters with one list permuted, or with one entry replaced by a copy of another entry
		// (same length, duplicates are accepted by the message validation)
		if cur, err := w.P.PApp.ProviderKeeper.GetConsumerPowerShapingParameters(w.P.Ctx(), ci.ID); err == nil && w.Rnd.Intn(2) == 0 {
			mut := func(l []string) ([]string, bool) {
				if len(l) < 2 {
					return l, false
				}
				out := append([]string(nil), l...)
				i, j := w.Rnd.Intn(len(out)), w.Rnd.Intn(len(out))
				if w.Rnd.Intn(2) == 0 {
					out[i], out[j] = out[j], out[i]
				} else {
					out[i] = out[j]
				}
				return out, true
			}
			np := cur
			var ok1, ok2, ok3 bool
			np.Prioritylist, ok1 = mut(cur.Prioritylist)
			if !ok1 || w.Rnd.Intn(2) == 0 {
				np.Allowlist, ok2 = mut(cur.Allowlist)
			}
			if !ok1 && !ok2 {
				np.Denylist, ok3 = mut(cur.Denylist)
			}
			if ok1 || ok2 || ok3 {
				msg.PowerShapingParameters = &np
				what = "power-shaping:list-permuted-or-duplicated"
			}
		}
	case 1:
		if prelaunch && !ci.WantLive {
			spawn, cls := w.randSpawn()
			msg.InitializationParameters = DefaultInitParams(spawn, w.Cfg.ConsumerUnbonding)
			what = "spawn=" + cls
		} else {
			msg.PowerShapingParameters = w.randPowerShaping()
			what = "power-shaping"
		}
	case 2:
		msg.InfractionParameters = w.randInfraction(true)
		what = "infraction"
	case 3:
		if ci.WantLive {
			return nil
		}
		no := w.randOwner()
		msg.NewOwnerAddress = no.Addr.String()
		what = "owner->" + no.Name
	case 4:
		if prelaunch && !ci.WantLive {
			msg.NewChainId = fmt.Sprintf("dorm%d", w.Rnd.Intn(6))
			what = "chain-id"
		} else {
			md := Metadata("renamed")
			msg.Metadata = &md
			what = "metadata"
		}
	default:
		md := Metadata(fmt.Sprintf("n%d", w.Rnd.Intn(100)))
		msg.Metadata = &md
		what = "metadata"
	}
	w.Op("update-consumer %s by %s: %s", ci.ID, ci.Owner.Name, what)
	op := one("update-consumer", ci.Owner, msg)
	op.Specs[0].Tag = "update-consumer:" + what
	return op
}

// opUpdateLists works on the allow/deny/priority lists of one consumer: if it has no list of two or more entries it gets a
// priority list (and a validator-set cap); otherwise one list is permuted, or one entry is replaced by a copy of another entry
// (same length; duplicates pass the message validation), everything else unchanged.
func opUpdateLists(w *World) *Op {
	ci := w.randConsumer(allActive...)
	if ci == nil || ci.Owner == nil {
		return nil
	}
	cur, err := w.P.PApp.ProviderKeeper.GetConsumerPowerShapingParameters(w.P.Ctx(), ci.ID)
	if err != nil {
		return nil
	}
	np := cur
	what := ""
	mut := func(l []string) []string {
		out := append([]string(nil), l...)
		i := w.Rnd.Intn(len(out))
		j := (i + 1 + w.Rnd.Intn(len(out)-1)) % len(out)
		if w.Rnd.Intn(2) == 0 {
			out[i], out[j] = out[j], out[i]
			what = "permuted"
		} else {
			out[i] = out[j]
			what = "entry-duplicated"
		}
		return out
	}
	switch {
	case len(cur.Prioritylist) >= 2 && w.Rnd.Intn(3) != 0:
		np.Prioritylist = mut(cur.Prioritylist)
		what = "prioritylist-" + what
	case len(cur.Allowlist) >= 2 && w.Rnd.Intn(2) == 0:
		np.Allowlist = mut(cur.Allowlist)
		what = "allowlist-" + what
	case len(cur.Denylist) >= 2:
		np.Denylist = mut(cur.Denylist)
		what = "denylist-" + what
	default:
		vals := w.createdVals()
		if len(vals) < 3 {
			return nil
		}
		perm := w.Rnd.Perm(len(vals))
		np.Prioritylist = nil
		for _, i := range perm[:2+w.Rnd.Intn(2)] {
			np.Prioritylist = append(np.Prioritylist, vals[i].ConsAddr().String())
		}
		if np.Top_N == 0 && np.ValidatorSetCap == 0 {
			np.ValidatorSetCap = uint32(1 + w.Rnd.Intn(len(vals)))
		}
		what = "prioritylist-set"
	}
	w.Op("update-lists %s by %s: %s", ci.ID, ci.Owner.Name, what)
	op := one("update-consumer", ci.Owner, &providertypes.MsgUpdateConsumer{Owner: ci.Owner.Addr.String(), ConsumerId: ci.ID, PowerShapingParameters: &np})
	op.Specs[0].Tag = "update-consumer:lists:" + what
	return op
}

// opInfraction requests an infraction-parameter change: partial, repeated, equal to the current values (cancelling) ...
func opInfraction(w *World) *Op {
	ci := w.randConsumer(providertypes.CONSUMER_PHASE_LAUNCHED, providertypes.CONSUMER_PHASE_LAUNCHED, providertypes.CONSUMER_PHASE_INITIALIZED)
	if ci == nil || ci.Owner == nil {
		return nil
	}
	var ip *providertypes.InfractionParameters
	what := ""
	switch w.Rnd.Intn(5) {
	case 0: // equal to the values in force: cancels a pending change
		cur, err := w.P.PApp.ProviderKeeper.GetInfractionParameters(w.P.Ctx(), ci.ID)
		if err != nil {
			return nil
		}
		ip, what = &cur, "equal-to-current"
	case 1:
		ip, what = w.randInfraction(false), "full"
	default:
		ip, what = w.randInfraction(true), "maybe-partial"
	}
	w.Op("update-consumer %s by %s: infraction (%s)", ci.ID, ci.Owner.Name, what)
	op := one("update-consumer", ci.Owner, &providertypes.MsgUpdateConsumer{Owner: ci.Owner.Addr.String(), ConsumerId: ci.ID, InfractionParameters: ip})
	op.Specs[0].Tag = "update-consumer:infraction"
	return op
}

// opInfractionPair: two launched consumers request a change in the same block (same due time, one shared schedule slot).
func opInfractionPair(w *World) *Op {
	var cands []*CInfo
	for _, ci := range w.consumersIn(providertypes.CONSUMER_PHASE_LAUNCHED) {
		if ci.Owner != nil {
			cands = append(cands, ci)
		}
	}
	if len(cands) < 2 {
		return nil
	}
	p := w.Rnd.Perm(len(cands))
	a, b := cands[p[0]], cands[p[1]]
	op := &Op{Name: "infraction-pair"}
	for _, ci := range []*CInfo{a, b} {
		op.Specs = append(op.Specs, TxSpec{Signer: ci.Owner, Msgs: []sdk.Msg{&providertypes.MsgUpdateConsumer{Owner: ci.Owner.Addr.String(), ConsumerId: ci.ID, InfractionParameters: w.randInfraction(false)}}, Tag: "update-consumer:infraction"})
	}
	w.Op("update-consumer %s and %s: infraction (same block)", a.ID, b.ID)
	return op
}

func opRemoveConsumer(w *World) *Op {
	ci := w.randConsumer(providertypes.CONSUMER_PHASE_LAUNCHED)
	if ci == nil || ci.Owner == nil {
		return nil
	}
	if ci.StarveAt > 0 || (ci.WantLive && w.Rnd.Intn(4) != 0) {
		return nil // keep live consumers around most of the time; starved ones are left to time out
	}
	w.Op("remove-consumer %s by %s", ci.ID, ci.Owner.Name)
	return one("remove-consumer", ci.Owner, &providertypes.MsgRemoveConsumer{ConsumerId: ci.ID, Owner: ci.Owner.Addr.String()})
}

// ---- validator per-consumer operations

func (w *World) randKey(v *Val) *ConsKey {
	switch w.Rnd.Intn(8) {
	case 0:
		return v.Key // own provider key
	case 1:
		return w.randVal().Key // somebody's provider key
	default:
		return w.KeyPool[w.Rnd.Intn(len(w.KeyPool))]
	}
}

func opOptIn(w *World) *Op {
	ci := w.randConsumer(anyPhase...)
	if ci == nil {
		return nil
	}
	v := w.randVal()
	var key *ConsKey
	if w.Rnd.Intn(3) == 0 {
		key = w.randKey(v)
	}
	kn := ""
	if key != nil {
		kn = key.Name
	}
	w.Op("opt-in val%d -> %s key=%s", v.Idx, ci.ID, kn)
	op := one("opt-in", v.Oper, MsgOptIn(v, ci.ID, key))
	op.Specs[0].Tag = "opt-in:" + kn
	return op
}

func opOptOut(w *World) *Op {
	ci := w.randConsumer(anyPhase...)
	if ci == nil {
		return nil
	}
	v := w.randVal()
	w.Op("opt-out val%d -> %s", v.Idx, ci.ID)
	return one("opt-out", v.Oper, MsgOptOut(v, ci.ID))
}

func opAssignKey(w *World) *Op {
	ci := w.randConsumer(anyPhase...)
	if ci == nil {
		return nil
	}
	if w.Cfg.Profile == "keys" && w.Rnd.Intn(4) != 0 {
		// concentrate on a few consumers whose ids are textual prefixes of one another / sort differently as strings and as
		// length-prefixed keys (0, 1, 2, 10, 11), so that the same key is used, replaced and pruned on such pairs
		focus := []string{"0", "1", "2", "10", "11"}
		if f := w.Shadow.ByID[focus[w.Rnd.Intn(len(focus))]]; f != nil {
			ci = f
		}
	}
	v := w.randVal()
	key := w.randKey(v)
	w.Op("assign-key val%d -> %s key=%s", v.Idx, ci.ID, key.Name)
	op := one("assign-key", v.Oper, MsgAssignKey(v, ci.ID, key))
	op.Specs[0].Tag = "assign-key:" + key.Name
	return op
}

func opCommission(w *World) *Op {
	ci := w.randConsumer(anyPhase...)
	if ci == nil {
		return nil
	}
	v := w.randVal()
	rate := math.LegacyNewDecWithPrec(int64(w.Rnd.Intn(101)), 2)
	switch w.Rnd.Intn(8) {
	case 0, 1: // an explicit zero rate is a rate, not "unset"
		rate = math.LegacyZeroDec()
	case 2:
		rate = math.LegacyOneDec()
	case 3:
		rate = math.LegacyNewDecWithPrec(1, 18)
	}
	w.Op("commission val%d -> %s rate=%s", v.Idx, ci.ID, rate)
	return one("commission", v.Oper, MsgCommission(v, ci.ID, rate))
}

// ---- governance

// withVotes appends, to a proposal submission, yes-votes of every validator operator on the id the proposal will get
// (transactions of a block execute in order, so the votes land right after the submission).
func (w *World) withVotes(op *Op) *Op {
	next, err := w.P.PApp.GovKeeper.ProposalID.Peek(w.P.Ctx())
	if err != nil {
		return op
	}
	id := next + uint64(w.propsThisStep)
	w.propsThisStep++
	for _, v := range w.createdVals() {
		op.Specs = append(op.Specs, TxSpec{Signer: v.Oper, Msgs: []sdk.Msg{MsgVoteYes(v.Oper, id)}, Tag: "vote"})
	}
	return op
}

// voteOps returns votes (by every validator operator) on proposals not yet voted on.
func (w *World) voteOps() []TxSpec {
	var specs []TxSpec
	for _, p := range w.Shadow.Props {
		if p.Voted {
			continue
		}
		p.Voted = true
		for _, v := range w.createdVals() {
			specs = append(specs, TxSpec{Signer: v.Oper, Msgs: []sdk.Msg{MsgVoteYes(v.Oper, p.ID)}, Tag: "vote"})
		}
	}
	return specs
}

func opGovParams(w *World) *Op {
	params := w.P.PApp.ProviderKeeper.GetParams(w.P.Ctx())
	what := ""
	switch w.Rnd.Intn(4) {
	case 0:
		params.MaxProviderConsensusValidators = int64(1 + w.Rnd.Intn(w.Cfg.NumVals+2))
		what = fmt.Sprintf("M=%d", params.MaxProviderConsensusValidators)
	case 1:
		params.BlocksPerEpoch = []int64{1, 2, 3, 5}[w.Rnd.Intn(4)]
		what = fmt.Sprintf("epoch=%d", params.BlocksPerEpoch)
	case 2:
		params.SlashMeterReplenishFraction = []string{"0.001", "0.05", "0.34", "1.0"}[w.Rnd.Intn(4)]
		what = "slashfrac=" + params.SlashMeterReplenishFraction
	default:
		params.NumberOfEpochsToStartReceivingRewards = int64(1 + w.Rnd.Intn(4))
		what = fmt.Sprintf("rewardepochs=%d", params.NumberOfEpochsToStartReceivingRewards)
	}
	w.Op("gov: provider params %s", what)
	prop := GovProposal(w.Accts["faucet"], &providertypes.MsgUpdateParams{Authority: GovAddr(), Params: params})
	op := one("gov-params", w.Accts["faucet"], prop)
	op.Specs[0].Tag = "gov-params:" + what
	return w.withVotes(op)
}

func opGovStaking(w *World) *Op {
	sk := w.P.PApp.StakingKeeper
	params, err := sk.GetParams(w.P.Ctx())
	if err != nil {
		return nil
	}
	what := ""
	if w.Rnd.Intn(2) == 0 {
		params.UnbondingTime = w.Cfg.Unbonding * time.Duration(1+w.Rnd.Intn(3)) / 2
		what = fmt.Sprintf("unbonding=%s", params.UnbondingTime)
	} else {
		params.MaxValidators = uint32(2 + w.Rnd.Intn(w.Cfg.NumVals+2))
		what = fmt.Sprintf("maxvals=%d", params.MaxValidators)
	}
	w.Op("gov: staking params %s", what)
	prop := GovProposal(w.Accts["faucet"], &stakingtypes.MsgUpdateParams{Authority: GovAddr(), Params: params})
	op := one("gov-staking", w.Accts["faucet"], prop)
	op.Specs[0].Tag = "gov-staking:" + what
	return w.withVotes(op)
}

// opToGov transfers ownership of an opt-in consumer to the gov module (first step of becoming Top-N).
func opToGov(w *World) *Op {
	ci := w.randConsumer(allActive...)
	if ci == nil || ci.Owner == nil {
		return nil
	}
	w.Op("update-consumer %s: owner->gov", ci.ID)
	msg := &providertypes.MsgUpdateConsumer{Owner: ci.Owner.Addr.String(), ConsumerId: ci.ID, NewOwnerAddress: GovAddr()}
	op := one("to-gov", ci.Owner, msg)
	op.Specs[0].Tag = "update-consumer:owner->gov"
	return op
}

var topNMenu = []uint32{50, 51, 66, 67, 80, 99, 100}

// opGovTopN proposes a Top-N change (or a return to opt-in / to a private owner) for a gov-owned consumer.
func opGovTopN(w *World) *Op {
	var cands []*CInfo
	for _, ci := range w.consumersIn(allActive...) {
		if ci.Owner == nil {
			cands = append(cands, ci)
		}
	}
	if len(cands) == 0 {
		return nil
	}
	ci := cands[w.Rnd.Intn(len(cands))]
	ps, err := w.P.PApp.ProviderKeeper.GetConsumerPowerShapingParameters(w.P.Ctx(), ci.ID)
	if err != nil {
		return nil
	}
	msg := &providertypes.MsgUpdateConsumer{Owner: GovAddr(), ConsumerId: ci.ID}
	what := ""
	switch w.Rnd.Intn(6) {
	case 0:
		ps.Top_N = 0
		msg.PowerShapingParameters = &ps
		what = "topN=0"
	case 1:
		ps.Top_N = 0
		msg.PowerShapingParameters = &ps
		msg.NewOwnerAddress = w.randOwner().Addr.String()
		what = "topN=0+owner"
	default:
		ps.Top_N = topNMenu[w.Rnd.Intn(len(topNMenu))]
		if w.Rnd.Intn(4) == 0 {
			n := w.randPowerShaping()
			n.Top_N = ps.Top_N
			ps = *n
		}
		msg.PowerShapingParameters = &ps
		what = fmt.Sprintf("topN=%d", ps.Top_N)
	}
	w.Op("gov: consumer %s %s", ci.ID, what)
	op := one("gov-topn", w.Accts["faucet"], GovProposal(w.Accts["faucet"], msg))
	op.Specs[0].Tag = "gov-topn:" + what
	return w.withVotes(op)
}

// pickOp draws one operation from the profile's weighted menu.
func (w *World) pickOp() *Op {
	menu := w.menu
	total := 0
	for _, g := range menu {
		total += g.weight
	}
	if total == 0 {
		return nil
	}
	for tries := 0; tries < 5; tries++ {
		r := w.Rnd.Intn(total)
		for _, g := range menu {
			if r < g.weight {
				if op := g.gen(w); op != nil {
					return op
				}
				break
			}
			r -= g.weight
		}
	}
	return nil
}
