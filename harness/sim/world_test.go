package sim

import (
	"os"
	"strconv"
	"testing"
)

// TestWorld runs one world selected by the environment (used by /verif/check; one process per world).
func TestWorld(t *testing.T) {
	profile := os.Getenv("VERIF_PROFILE")
	if profile == "" {
		t.Skip("VERIF_PROFILE not set")
	}
	tier := os.Getenv("VERIF_TIER")
	if tier == "" {
		tier = "quick"
	}
	seed, _ := strconv.ParseInt(os.Getenv("VERIF_SEED"), 10, 64)
	idx, _ := strconv.Atoi(os.Getenv("VERIF_INDEX"))
	out := os.Getenv("VERIF_OUT")
	if out == "" {
		out = "/dev/stdout"
	}
	RunWorld(t, profile, tier, seed, idx, out)
}
