package sim

import (
	"fmt"
	"sort"

	"cosmossdk.io/math"

	tmprotocrypto "github.com/cometbft/cometbft/proto/tendermint/crypto"

	sdk "github.com/cosmos/cosmos-sdk/types"
	stakingtypes "github.com/cosmos/cosmos-sdk/x/staking/types"
)

// ProviderProbe is called inside provider blocks with the uncommitted context.
type ProviderProbe interface {
	PostBegin(ctx sdk.Context)
	PreEnd(ctx sdk.Context)
	PostEnd(ctx sdk.Context)
}

// ConsumerProbe is called inside consumer blocks.
type ConsumerProbe interface {
	CPostBegin(c *Chain, ctx sdk.Context)
	CPreEnd(c *Chain, ctx sdk.Context)
	CPostEnd(c *Chain, ctx sdk.Context)
}

// FinalMonitor runs end-of-world checks.
type FinalMonitor interface{ Final() }

// AttachMonitors instantiates every monitor and returns the provider probes dispatching to them.
func (w *World) AttachMonitors() *Probes {
	w.Mons = nil
	for _, mk := range monitorFactories {
		w.Mons = append(w.Mons, mk(w))
	}
	pr := &Probes{}
	pr.PostBegin = append(pr.PostBegin, func(ctx sdk.Context) {
		for _, m := range w.Mons {
			if p, ok := m.(ProviderProbe); ok {
				p.PostBegin(ctx)
			}
		}
	})
	pr.PreEnd = append(pr.PreEnd, func(ctx sdk.Context) {
		for _, m := range w.Mons {
			if p, ok := m.(ProviderProbe); ok {
				p.PreEnd(ctx)
			}
		}
	})
	pr.PostEnd = append(pr.PostEnd, func(ctx sdk.Context) {
		for _, m := range w.Mons {
			if p, ok := m.(ProviderProbe); ok {
				p.PostEnd(ctx)
			}
		}
	})
	return pr
}

func (w *World) consumerProbes(id string) *Probes {
	get := func() *Chain { return w.Consumers[id] }
	pr := &Probes{}
	pr.PostBegin = append(pr.PostBegin, func(ctx sdk.Context) {
		if c := get(); c != nil {
			for _, m := range w.Mons {
				if p, ok := m.(ConsumerProbe); ok {
					p.CPostBegin(c, ctx)
				}
			}
		}
	})
	pr.PreEnd = append(pr.PreEnd, func(ctx sdk.Context) {
		if c := get(); c != nil {
			for _, m := range w.Mons {
				if p, ok := m.(ConsumerProbe); ok {
					p.CPreEnd(c, ctx)
				}
			}
		}
	})
	pr.PostEnd = append(pr.PostEnd, func(ctx sdk.Context) {
		if c := get(); c != nil {
			for _, m := range w.Mons {
				if p, ok := m.(ConsumerProbe); ok {
					p.CPostEnd(c, ctx)
				}
			}
		}
	})
	return pr
}

func (w *World) FinalChecks() {
	for _, m := range w.Mons {
		if f, ok := m.(FinalMonitor); ok {
			f.Final()
		}
	}
}

var monitorFactories []func(w *World) Monitor

func registerMonitor(f func(w *World) Monitor) { monitorFactories = append(monitorFactories, f) }

// ---- staking view helpers (OBS-STAKE)

// SVal is a staking validator as the oracles see it.
type SVal struct {
	Oper      string
	ValAddr   sdk.ValAddress
	ConsAddr  sdk.ConsAddress
	PubKey    tmprotocrypto.PublicKey
	Status    stakingtypes.BondStatus
	Jailed    bool
	Tokens    math.Int
	LastPower int64 // staking's LastValidatorPower (0 if none)
}

func (v SVal) Bonded() bool { return v.Status == stakingtypes.Bonded }

// StakingSnapshot reads all staking validators (sorted by operator address).
func (w *World) StakingSnapshot(ctx sdk.Context) []SVal {
	sk := w.P.PApp.StakingKeeper
	vals, err := sk.GetAllValidators(ctx)
	if err != nil {
		panic(err)
	}
	out := make([]SVal, 0, len(vals))
	for _, v := range vals {
		valAddr, err := sdk.ValAddressFromBech32(v.OperatorAddress)
		if err != nil {
			panic(err)
		}
		ca, err := v.GetConsAddr()
		if err != nil {
			panic(err)
		}
		pk, err := v.CmtConsPublicKey()
		if err != nil {
			panic(err)
		}
		lp, err := sk.GetLastValidatorPower(ctx, valAddr)
		if err != nil {
			lp = 0
		}
		out = append(out, SVal{Oper: v.OperatorAddress, ValAddr: valAddr, ConsAddr: ca, PubKey: pk,
			Status: v.Status, Jailed: v.Jailed, Tokens: v.Tokens, LastPower: lp})
	}
	sort.Slice(out, func(i, j int) bool { return out[i].Oper < out[j].Oper })
	return out
}

func pkStr(pk tmprotocrypto.PublicKey) string { return pk.String() }

func consHex(a []byte) string { return fmt.Sprintf("%X", a) }

// valName maps a provider consensus address to the harness name of the validator (for readable witnesses).
func (w *World) valName(cons []byte) string {
	for _, v := range w.Vals {
		if v.ConsAddr().Equals(sdk.ConsAddress(cons)) {
			return fmt.Sprintf("val%d", v.Idx)
		}
	}
	return consHex(cons)
}
