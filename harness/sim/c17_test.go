package sim

import (
	"fmt"
	"os"
	"strconv"
	"testing"
	"time"

	sdk "github.com/cosmos/cosmos-sdk/types"

	clienttypes "github.com/cosmos/ibc-go/v10/modules/core/02-client/types"
	connectiontypes "github.com/cosmos/ibc-go/v10/modules/core/03-connection/types"
	channeltypes "github.com/cosmos/ibc-go/v10/modules/core/04-channel/types"
	commitmenttypes "github.com/cosmos/ibc-go/v10/modules/core/23-commitment/types"
	host "github.com/cosmos/ibc-go/v10/modules/core/24-host"
	ibctm "github.com/cosmos/ibc-go/v10/modules/light-clients/07-tendermint"
	ibctesting "github.com/cosmos/ibc-go/v10/testing"

	providertypes "github.com/cosmos/interchain-security/v7/x/ccv/provider/types"
)

// createClientMsg builds a MsgCreateClient on `on` tracking chain `of` (anyone may create light clients).
func (w *World) createClientMsg(on, of *Chain, unbonding time.Duration) sdk.Msg {
	hdr := of.TC.LatestCommittedHeader
	cs := ibctm.NewClientState(of.ID, ibctm.DefaultTrustLevel, unbonding*66/100, unbonding, 10*time.Second,
		clienttypes.NewHeight(0, uint64(hdr.Header.Height)), commitmenttypes.GetSDKSpecs(), []string{"upgrade", "upgradedIBCState"})
	m, err := clienttypes.NewMsgCreateClient(cs, hdr.ConsensusState(), w.relayerFor(on).Addr.String())
	if err != nil {
		panic(err)
	}
	return m
}

// openConnectionOver runs a connection handshake between explicitly given clients (consumer initiates).
func (l *Link) openConnectionOver(consClient, provClient string) (consConn, provConn string, err error) {
	saveC, saveP, saveCC, savePC := l.ConsClient, l.ProvClient, l.ConsConn, l.ProvConn
	l.ConsClient, l.ProvClient = consClient, provClient
	err = l.OpenConnection()
	consConn, provConn = l.ConsConn, l.ProvConn
	l.ConsClient, l.ProvClient, l.ConsConn, l.ProvConn = saveC, saveP, saveCC, savePC
	return
}

// craftedTry writes an arbitrary INIT channel end into the consumer's IBC store (what a malicious consumer binary could
// commit to), lets a block pass and presents it to the provider in a MsgChannelOpenTry with a genuine proof.
func (l *Link) craftedTry(name string, consPort, provPort, version string, order channeltypes.Order, consHops, provHops []string, n int) TxOutcome {
	w := l.W
	c, p := l.C, w.P
	chanID := fmt.Sprintf("channel-%d", 50+n)
	end := channeltypes.NewChannel(channeltypes.INIT, order, channeltypes.NewCounterparty(provPort, ""), consHops, version)
	c.CApp.IBCKeeper.ChannelKeeper.SetChannel(c.WriteCtx(), consPort, chanID, end)
	w.Tick()
	w.Produce(c, nil, nil)
	w.Tick()
	w.Produce(c, nil, nil)
	return w.stepOn(p, l.ProvClient, c, func(signer string) []sdk.Msg {
		proof, ph := proofAt(c, host.ChannelKey(consPort, chanID))
		return []sdk.Msg{channeltypes.NewMsgChannelOpenTry(provPort, version, order, provHops, consPort, chanID, version, proof, ph, signer)}
	})
}

// TestC17Handshake drives the handshake matrix against real provider and consumer applications.
func TestC17Handshake(t *testing.T) {
	if os.Getenv("VERIF_DIRECTED") == "" {
		t.Skip("directed test; run through ./check")
	}
	start := time.Now()
	seed, _ := strconv.ParseInt(os.Getenv("VERIF_SEED"), 10, 64)
	tier := os.Getenv("VERIF_TIER")
	rounds := 1
	if tier == "thorough" {
		rounds = 5
	}
	var last *World
	fatal := ""
	for round := 0; round < rounds && fatal == ""; round++ {
		cfg := MakeConfig("valset", tier, seed, 3000+round)
		cfg.LiveConsumers = 2
		cfg.Profile = "handshake"
		cfg.HandshakeDelayMax = 0
		cfg.BlocksPerEpoch = 2
		w := NewWorld(t, fmt.Sprintf("c17-handshake-%s-%d-%d", tier, seed, round), cfg)
		if last != nil {
			w.stats, w.violations, w.vioSeen = last.stats, last.violations, last.vioSeen
		}
		last = w
		func() {
			defer func() {
				if r := recover(); r != nil {
					fatal = fmt.Sprintf("harness panic: %v", r)
				}
			}()
			runC17Round(w, round)
		}()
	}
	last.Finish(os.Getenv("VERIF_OUT"), start, fatal)
}

func runC17Round(w *World, round int) {
	pr := w.AttachMonitors()
	w.Init(pr)
	w.menu = nil
	w.setupLive()
	for _, ci := range w.Shadow.Consumers {
		ci.HandshakeAt = 1 << 30 // the test drives the handshakes itself
	}
	for i := 0; i < 40; i++ {
		w.Step++
		w.Tick()
		w.ProviderStep(nil, false, nil)
		w.ConsumersStep()
		if len(w.LiveLinks()) == 2 {
			break
		}
	}
	links := w.LiveLinks()
	if len(links) < 2 {
		panic("setup: two live consumers expected")
	}
	la, lb := links[0], links[1]
	pk := func() providerKeeperView { return providerKeeperView{w} }
	expect := func(name string, o TxOutcome, accept bool) {
		w.Eval("C17")
		w.Event("C17", "handshake-attempts")
		w.Case("C17", "attempt:"+name)
		if len(w.st("C17").Samples) < 4 {
			w.Sample("C17", map[string]any{"attempt": name, "expected_accept": accept, "accepted": o.OK(), "log": logOf(o)})
		}
		if o.OK() != accept {
			w.Violation("C17", "handshake-attempt-outcome:"+name, map[string]any{"expected_accept": accept, "accepted": o.OK(), "log": logOf(o)})
		}
		if !accept {
			w.Event("C17", "handshake-attempts-rejected")
		}
	}
	if err := la.OpenConnection(); err != nil {
		panic("connection A: " + err.Error())
	}
	hA := []string{la.ConsConn}
	pA := []string{la.ProvConn}
	n := 0
	next := func() int { n++; return n }
	// ---- single deviations, before any CCV channel exists for A
	expect("unordered", la.craftedTry("unordered", "consumer", "provider", "1", channeltypes.UNORDERED, hA, pA, next()), false)
	expect("counterparty-port-not-consumer", la.craftedTry("port", "otherport", "provider", "1", channeltypes.ORDERED, hA, pA, next()), false)
	expect("version-2", la.craftedTry("version", "consumer", "provider", "2", channeltypes.ORDERED, hA, pA, next()), false)
	expect("two-hops", la.craftedTry("hops", "consumer", "provider", "1", channeltypes.ORDERED, hA, []string{la.ProvConn, la.ProvConn}, next()), false)
	// provider-initiated
	o := w.stepOn(w.P, "", nil, func(signer string) []sdk.Msg {
		return []sdk.Msg{channeltypes.NewMsgChannelOpenInit("provider", "1", channeltypes.ORDERED, pA, "consumer", signer)}
	})
	expect("initiated-by-provider", o, false)
	// a connection on top of a client that is not the one recorded for any consumer
	w.Tick()
	outs := w.ProviderStep([]TxSpec{{Signer: w.Accts["relayer"], Msgs: []sdk.Msg{w.createClientMsg(w.P, la.C, w.Cfg.ConsumerUnbonding)}, Tag: "create-client"}}, true, nil)
	var extraClient, extraConsConn, extraProvConn string
	if len(outs) == 1 && outs[0].OK() {
		extra := eventAttr(outs[0].Result.Events, clienttypes.EventTypeCreateClient, clienttypes.AttributeKeyClientID)
		if cc, pc, err := la.openConnectionOver(la.ConsClient, extra); err == nil {
			extraClient, extraConsConn, extraProvConn = extra, cc, pc
			save := la.ProvClient
			la.ProvClient = extra
			expect("unbound-client", la.craftedTry("client", "consumer", "provider", "1", channeltypes.ORDERED, []string{cc}, []string{pc}, next()), false)
			la.ProvClient = save
		} else {
			w.Event("C17", "setup-skipped:unbound-client")
		}
	}
	// combined deviation
	expect("unordered+version-2", la.craftedTry("combo", "consumer", "provider", "2", channeltypes.UNORDERED, hA, pA, next()), false)
	// ---- the honest handshake must succeed
	at, cc, pc, lg := la.OpenChannel(ChanSpec{ConsPort: "consumer", ProvPort: "provider", Version: "1", Order: channeltypes.ORDERED}, la.ConsConn, la.ProvConn)
	w.Eval("C17")
	w.Case("C17", "attempt:honest")
	if at != "" {
		w.Violation("C17", "honest-handshake-rejected", map[string]any{"step": at, "log": lg})
		return
	}
	la.ConsChan, la.ProvChan = cc, pc
	w.Shadow.ByID[la.CID].ChanOpen = true
	w.Event("C17", "honest-handshake-completed")
	if id, ok := pk().channelOwner(pc); !ok || id != la.CID {
		w.Violation("C17", "channel-attributed-to-wrong-consumer", map[string]any{"channel": pc, "consumer": id, "expected": la.CID})
	}
	// ---- repetition after success: the provider completes at most one
	at2, _, _, lg2 := la.OpenChannel(ChanSpec{ConsPort: "consumer", ProvPort: "provider", Version: "1", Order: channeltypes.ORDERED}, la.ConsConn, la.ProvConn)
	w.Eval("C17")
	w.Event("C17", "handshake-attempts")
	w.Case("C17", "attempt:repeat-after-success")
	if at2 == "" {
		w.Violation("C17", "second-ccv-channel-completed", map[string]any{"consumer": la.CID})
	} else {
		w.Event("C17", "handshake-attempts-rejected")
		w.Sample("C17", map[string]any{"attempt": "repeat-after-success", "rejected_at": at2, "log": lg2})
	}
	// ---- consumer B: honest handshake, then a consumer-side attempt over a foreign client
	if err := lb.OpenConnection(); err != nil {
		panic("connection B: " + err.Error())
	}
	w.Tick()
	couts := w.Produce(lb.C, []TxSpec{{Signer: lb.C.relayer, Msgs: []sdk.Msg{w.createClientMsg(lb.C, w.P, w.Cfg.Unbonding)}, Tag: "create-client"}}, nil)
	if len(couts) == 1 && couts[0].OK() {
		foreign := eventAttr(couts[0].Result.Events, clienttypes.EventTypeCreateClient, clienttypes.AttributeKeyClientID)
		// connection INIT on the consumer over the foreign client is core IBC business; the CCV channel INIT over it must be refused by the consumer module
		o := w.stepOn(lb.C, "", nil, func(signer string) []sdk.Msg {
			return []sdk.Msg{connectiontypes.NewMsgConnectionOpenInit(foreign, lb.ProvClient, prefixOf(w.P), ibctesting.DefaultOpenInitVersion, 0, signer)}
		})
		if o.OK() {
			fconn := eventAttr(o.Result.Events, connectiontypes.EventTypeConnectionOpenInit, connectiontypes.AttributeKeyConnectionID)
			o2 := w.stepOn(lb.C, "", nil, func(signer string) []sdk.Msg {
				return []sdk.Msg{channeltypes.NewMsgChannelOpenInit("consumer", "1", channeltypes.ORDERED, []string{fconn}, "provider", signer)}
			})
			expect("consumer-side:channel-over-foreign-client", o2, false)
		}
	}
	// consumer-side parameter deviations (the consumer module must refuse to open such channels)
	for name, spec := range map[string]ChanSpec{
		"consumer-side:unordered":     {ConsPort: "consumer", ProvPort: "provider", Version: "1", Order: channeltypes.UNORDERED},
		"consumer-side:version-2":     {ConsPort: "consumer", ProvPort: "provider", Version: "2", Order: channeltypes.ORDERED},
		"consumer-side:wrong-cp-port": {ConsPort: "consumer", ProvPort: "transfer", Version: "1", Order: channeltypes.ORDERED},
	} {
		spec := spec
		o := w.stepOn(lb.C, "", nil, func(signer string) []sdk.Msg {
			return []sdk.Msg{channeltypes.NewMsgChannelOpenInit(spec.ConsPort, spec.Version, spec.Order, []string{lb.ConsConn}, spec.ProvPort, signer)}
		})
		expect(name, o, false)
	}
	// concurrent handshakes for the same consumer, delivered in lock step (INITs, TRYs, ACKs, CONFIRMs): the provider
	// completes exactly one of them
	nPar := 2 + round%2
	hs := lb.OpenChannelsInterleaved(ChanSpec{ConsPort: "consumer", ProvPort: "provider", Version: "1", Order: channeltypes.ORDERED}, lb.ConsConn, lb.ProvConn, nPar)
	w.Eval("C17")
	w.Event("C17", "interleaved-handshake-groups")
	done := 0
	cc, pc = "", ""
	for i, h := range hs {
		w.Event("C17", "handshake-attempts")
		w.Case("C17", fmt.Sprintf("attempt:interleaved-%d-of-%d refused-at=%s", i+1, nPar, h.FailedAt))
		if h.FailedAt == "" {
			done++
			if cc == "" {
				cc, pc = h.ConsChan, h.ProvChan
			}
		} else {
			w.Event("C17", "handshake-attempts-rejected")
			w.Sample("C17", map[string]any{"attempt": "interleaved", "index": i, "rejected_at": h.FailedAt, "log": h.Log})
		}
	}
	if done > 1 {
		w.Violation("C17", "second-ccv-channel-completed:interleaved", map[string]any{"consumer": lb.CID, "completed": done, "of": nPar})
	}
	if done == 0 {
		w.Violation("C17", "honest-handshake-rejected", map[string]any{"consumer": lb.CID, "step": hs[0].FailedAt, "log": hs[0].Log})
		return
	}
	lb.ConsChan, lb.ProvChan = cc, pc
	w.Shadow.ByID[lb.CID].ChanOpen = true
	w.Event("C17", "honest-handshake-completed")
	if id, ok := pk().channelOwner(pc); !ok || id != lb.CID {
		w.Violation("C17", "channel-attributed-to-wrong-consumer", map[string]any{"channel": pc, "consumer": id, "expected": lb.CID})
	}
	// traffic: both consumers receive their own sets (the C01 monitor judges which provider set each chain adopts)
	d := w.Accts["deleg0"]
	w.Tick()
	w.ProviderStep([]TxSpec{{Signer: d, Msgs: []sdk.Msg{MsgDelegate(d, w.Vals[0], 7_000_000), MsgDelegate(d, w.Vals[1], 3_333_333)}, Tag: "delegate"}}, true, nil)
	for i := 0; i < 8; i++ {
		w.Step++
		w.Tick()
		w.ProviderStep(nil, false, nil)
		w.ConsumersStep()
	}
	// the consumer adopts the channel the provider completed
	if ch, adopted := lb.C.CApp.ConsumerKeeper.GetProviderChannel(lb.C.Ctx()); adopted {
		w.Eval("C17")
		w.Event("C17", "consumer-adoptions-checked")
		if ch != lb.ConsChan {
			w.Violation("C17", "consumer-adopted-a-channel-the-provider-did-not-complete-first", map[string]any{"consumer": lb.CID, "adopted": ch, "completed": lb.ConsChan})
		}
	}
	// once the provider channel is adopted, the consumer refuses to open further CCV channels
	o3 := w.stepOn(la.C, "", nil, func(signer string) []sdk.Msg {
		return []sdk.Msg{channeltypes.NewMsgChannelOpenInit("consumer", "1", channeltypes.ORDERED, []string{la.ConsConn}, "provider", signer)}
	})
	if _, adopted := la.C.CApp.ConsumerKeeper.GetProviderChannel(la.C.Ctx()); adopted {
		expect("consumer-side:init-after-channel-adopted", o3, false)
	}

	// ---- launches on a pre-existing connection: a second consumer (same chain id) naming A's connection
	owner := w.Accts["owner1"]
	ip := DefaultInitParams(w.Now.Add(20*time.Second), w.Cfg.ConsumerUnbonding)
	ip.ConnectionId = la.ProvConn
	chainA, _ := w.P.PApp.ProviderKeeper.GetConsumerChainId(w.P.Ctx(), la.CID)
	newID := w.createCWith(owner, chainA, ip)
	var specs []TxSpec
	for _, v := range w.createdVals() {
		specs = append(specs, TxSpec{Signer: v.Oper, Msgs: []sdk.Msg{MsgOptIn(v, newID, nil)}, Tag: "opt-in"})
	}
	w.Tick()
	w.ProviderStep(specs, false, nil)
	for i := 0; i < 8; i++ {
		w.Tick()
		w.ProviderStep(nil, false, nil)
	}
	w.Eval("C17")
	w.Event("C17", "launch-on-connection-already-used-by-another-consumer")
	w.Case("C17", "launch:second-consumer-names-same-connection phase="+w.Phase(newID).String())
	// (the standing bindings monitor decides; additionally the first consumer must keep its bindings)
	if id, ok := pk().channelOwner(la.ProvChan); !ok || id != la.CID {
		w.Violation("C17", "channel-attribution-changed-by-other-launch", map[string]any{"channel": la.ProvChan, "consumer": id, "expected": la.CID})
	}
	if cl, ok := w.P.PApp.ProviderKeeper.GetClientIdToConsumerId(w.P.Ctx(), la.ProvClient); !ok || cl != la.CID {
		w.Violation("C17", "client-attribution-changed-by-other-launch", map[string]any{"client": la.ProvClient, "consumer": cl, "expected": la.CID})
	}
	// ---- a consumer launched on a pre-existing connection whose client is bound to nobody (second consumer for A's chain id):
	// it is bound to that client, gets its own CCV channel over that connection, and A keeps everything it had. The consumer
	// side of this handshake is committed by direct store writes (chain A keeps running its first CCV channel).
	if extraProvConn != "" {
		ip2 := DefaultInitParams(w.Now.Add(20*time.Second), w.Cfg.ConsumerUnbonding)
		ip2.ConnectionId = extraProvConn
		xID := w.createCWith(owner, chainA, ip2)
		specs = nil
		for _, v := range w.createdVals() {
			specs = append(specs, TxSpec{Signer: v.Oper, Msgs: []sdk.Msg{MsgOptIn(v, xID, nil)}, Tag: "opt-in"})
		}
		w.Tick()
		w.ProviderStep(specs, false, nil)
		for i := 0; i < 8 && w.Phase(xID) != phLaunch; i++ {
			w.Tick()
			w.ProviderStep(nil, false, nil)
		}
		w.Eval("C17")
		w.Case("C17", "launch:on-unbound-pre-existing-connection phase="+w.Phase(xID).String())
		if w.Phase(xID) != phLaunch {
			w.Violation("C17", "launch-on-free-pre-existing-connection-failed", map[string]any{"consumer": xID, "phase": w.Phase(xID).String()})
		} else {
			w.Event("C17", "launched-on-pre-existing-connection")
			pkp := w.P.PApp.ProviderKeeper
			if cl, _ := pkp.GetConsumerClientId(w.P.Ctx(), xID); cl != extraClient {
				w.Violation("C17", "pre-existing-connection-launch-bound-to-other-client", map[string]any{"consumer": xID, "client": cl, "connection_client": extraClient})
			}
			save := la.ProvClient
			la.ProvClient = extraClient
			k := next()
			consChanX := fmt.Sprintf("channel-%d", 50+k)
			o := la.craftedTry("preexisting", "consumer", "provider", "1", channeltypes.ORDERED, []string{extraConsConn}, []string{extraProvConn}, k)
			expect("try-over-pre-existing-connection-of-second-consumer", o, true)
			if o.OK() {
				provChanX := eventAttr(o.Result.Events, channeltypes.EventTypeChannelOpenTry, channeltypes.AttributeKeyChannelID)
				pch, _ := w.P.PApp.IBCKeeper.ChannelKeeper.GetChannel(w.P.Ctx(), "provider", provChanX)
				end := channeltypes.NewChannel(channeltypes.OPEN, channeltypes.ORDERED, channeltypes.NewCounterparty("provider", provChanX), []string{extraConsConn}, pch.Version)
				la.C.CApp.IBCKeeper.ChannelKeeper.SetChannel(la.C.WriteCtx(), "consumer", consChanX, end)
				w.Tick()
				w.Produce(la.C, nil, nil)
				w.Tick()
				w.Produce(la.C, nil, nil)
				o2 := w.stepOn(w.P, extraClient, la.C, func(signer string) []sdk.Msg {
					proof, ph := proofAt(la.C, host.ChannelKey("consumer", consChanX))
					return []sdk.Msg{channeltypes.NewMsgChannelOpenConfirm("provider", provChanX, proof, ph, signer)}
				})
				expect("confirm-over-pre-existing-connection-of-second-consumer", o2, true)
				if id, ok := pk().channelOwner(provChanX); o2.OK() && (!ok || id != xID) {
					w.Violation("C17", "channel-attributed-to-wrong-consumer", map[string]any{"channel": provChanX, "consumer": id, "expected": xID})
				}
				// a second handshake over the same connection is refused now
				k2 := next()
				o3 := la.craftedTry("preexisting-again", "consumer", "provider", "1", channeltypes.ORDERED, []string{extraConsConn}, []string{extraProvConn}, k2)
				expect("second-try-over-pre-existing-connection", o3, false)
			}
			la.ProvClient = save
			if id, ok := pk().channelOwner(la.ProvChan); !ok || id != la.CID {
				w.Violation("C17", "channel-attribution-changed-by-other-launch", map[string]any{"channel": la.ProvChan, "consumer": id, "expected": la.CID})
			}
			if cl, ok := pkp.GetClientIdToConsumerId(w.P.Ctx(), la.ProvClient); !ok || cl != la.CID {
				w.Violation("C17", "client-attribution-changed-by-other-launch", map[string]any{"client": la.ProvClient, "consumer": cl, "expected": la.CID})
			}
		}
	}
	for i := 0; i < 6; i++ {
		w.Step++
		w.Tick()
		w.ProviderStep(nil, false, nil)
		w.ConsumersStep()
	}
	// ---- a consumer is stopped (its client and channel bindings stay until the removal time); before it is removed another
	// consumer with the same chain id is created naming its connection: it must not be bound to the stopped consumer's client
	w.syncShadow()
	ls := lb
	if ci := w.Shadow.ByID[lb.CID]; ci == nil || ci.Owner == nil {
		ls = la // the other live consumer is owned by governance (Top-N)
	}
	if ci := w.Shadow.ByID[ls.CID]; ci != nil && ci.Owner != nil && w.Phase(ls.CID) == phLaunch {
		lb := ls
		chainB, _ := w.P.PApp.ProviderKeeper.GetConsumerChainId(w.P.Ctx(), lb.CID)
		w.Tick()
		outs := w.ProviderStep([]TxSpec{{Signer: ci.Owner, Msgs: []sdk.Msg{&providertypes.MsgRemoveConsumer{ConsumerId: lb.CID, Owner: ci.Owner.Addr.String()}}, Tag: "remove-consumer"}}, true, nil)
		if len(outs) == 1 && outs[0].OK() && w.Phase(lb.CID) == phStopped {
			ip3 := DefaultInitParams(w.Now.Add(20*time.Second), w.Cfg.ConsumerUnbonding)
			ip3.ConnectionId = lb.ProvConn
			yID := w.createCWith(owner, chainB, ip3)
			specs = nil
			for _, v := range w.createdVals() {
				specs = append(specs, TxSpec{Signer: v.Oper, Msgs: []sdk.Msg{MsgOptIn(v, yID, nil)}, Tag: "opt-in"})
			}
			w.Tick()
			w.ProviderStep(specs, false, nil)
			for i := 0; i < 8; i++ {
				w.Tick()
				w.ProviderStep(nil, false, nil)
			}
			w.Eval("C17")
			w.Event("C17", "launch-on-connection-of-a-stopped-consumer")
			w.Case("C17", "launch:second-consumer-names-connection-of-stopped-consumer phase="+w.Phase(yID).String())
			pkp := w.P.PApp.ProviderKeeper
			if w.Phase(lb.CID) == phStopped {
				if cl, ok := pkp.GetClientIdToConsumerId(w.P.Ctx(), lb.ProvClient); !ok || cl != lb.CID {
					w.Violation("C17", "client-attribution-changed-by-other-launch", map[string]any{"client": lb.ProvClient, "consumer": cl, "expected": lb.CID, "phase_of_expected": "stopped"})
				}
				if cl, ok := pkp.GetConsumerClientId(w.P.Ctx(), yID); ok && cl == lb.ProvClient {
					w.Violation("C17", "two-consumers-bound-to-one-client", map[string]any{"client": cl, "consumers": []string{lb.CID, yID}})
				}
			}
		}
	}
	w.FinalChecks()
}

type providerKeeperView struct{ w *World }

func (v providerKeeperView) channelOwner(ch string) (string, bool) {
	return v.w.P.PApp.ProviderKeeper.GetChannelIdToConsumerId(v.w.P.Ctx(), ch)
}

func (w *World) createCWith(owner *Account, chain string, ip *providertypes.ConsumerInitializationParameters) string {
	o := w.soloOK(TxSpec{Signer: owner, Msgs: []sdk.Msg{MsgCreateConsumer(owner, chain, ip, nil, nil)}, Tag: "create-consumer"})
	return eventAttr(o.Result.Events, providertypes.EventTypeCreateConsumer, providertypes.AttributeConsumerId)
}
