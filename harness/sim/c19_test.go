package sim

import (
	"crypto/sha256"
	"encoding/hex"
	"encoding/json"
	"fmt"
	"os"
	"os/exec"
	"sort"
	"strconv"
	"strings"
	"sync"
	"testing"
	"time"

	"cosmossdk.io/math"

	sdk "github.com/cosmos/cosmos-sdk/types"
	authtypes "github.com/cosmos/cosmos-sdk/x/auth/types"
	banktypes "github.com/cosmos/cosmos-sdk/x/bank/types"
	distrtypes "github.com/cosmos/cosmos-sdk/x/distribution/types"

	ibcexported "github.com/cosmos/ibc-go/v10/modules/core/exported"

	providertypes "github.com/cosmos/interchain-security/v7/x/ccv/provider/types"
)

// c19Outcome is what one execution of a fault scenario yields.
type c19Outcome struct {
	Scenario  string              `json:"scenario"`
	InjectAt  int                 `json:"inject_at"`
	BlockErr  string              `json:"block_err"`
	Calls     []Call              `json:"calls"`    // in-scope calls of the block under test
	Injected  *Call               `json:"injected"` // the call that was made to fail
	Pre       map[string]string   `json:"pre"`      // consumer -> digest of its keys before the block
	Post      map[string]string   `json:"post"`
	PreKeys   map[string][]string `json:"pre_keys"` // consumer -> "prefix:hash" per key (for allowed-difference rules)
	PostKeys  map[string][]string `json:"post_keys"`
	Phases    map[string]string   `json:"phases"`
	Clients   int                 `json:"clients"`
	Balances  map[string]string   `json:"balances"`
	PreBal    map[string]string   `json:"pre_balances"`
	Cons      map[string]string   `json:"conservation"`     // token-conservation measures after the block under test
	PreCons   map[string]string   `json:"pre_conservation"` // ... and before it
	LaterErr  string              `json:"later_err"`
	Consumers []string            `json:"consumers"`
}

// consumerKeyDigests returns, per consumer id, the list "prefix:sha(key|value)" of its provider-store keys.
func (w *World) consumerKeyDigests() (map[string]string, map[string][]string) {
	snap := snapStore(w.P.Ctx(), w.P.PApp.GetKey(providertypes.StoreKey))
	per := map[string][]string{}
	for k, v := range snap {
		o := ownerOfKey([]byte(k), v)
		if !o.known || o.class == klGlobal || o.class == klTimeQ {
			continue
		}
		h := sha256.Sum256(append([]byte(k), v...))
		per[o.owner] = append(per[o.owner], fmt.Sprintf("%d:%s", o.prefix, hex.EncodeToString(h[:8])))
	}
	dig := map[string]string{}
	for id, l := range per {
		sort.Strings(l)
		h := sha256.Sum256([]byte(fmt.Sprint(l)))
		dig[id] = hex.EncodeToString(h[:])
	}
	return dig, per
}

func (w *World) c19Balances() map[string]string {
	ctx := w.P.Ctx()
	bk := w.P.PApp.BankKeeper
	out := map[string]string{}
	for _, name := range []string{providertypes.ConsumerRewardsPool, distrtypes.ModuleName} {
		out[name] = bk.GetAllBalances(ctx, authtypes.NewModuleAddress(name)).String()
	}
	return out
}

// c19Conservation returns two quantities that no reward allocation - successful, failed or partly failed - may change:
// what the rewards pool holds beyond the consumers' credits (exact), and what the distribution module holds beyond what it owes
// (validators' outstanding rewards plus the community pool; compared up to one base unit per denom, because every payout
// leaves the per-validator truncation dust of observation O1 - at most 1e-18 of the amount per validator - unowed).
func (w *World) c19Conservation() map[string]string {
	ctx := w.P.Ctx()
	bk := w.P.PApp.BankKeeper
	dk := w.P.PApp.DistrKeeper
	// signed difference per denom, rendered "denom=amount;..." in denom order
	sub := func(a, b sdk.DecCoins) string {
		denoms := map[string]bool{}
		for _, c := range a {
			denoms[c.Denom] = true
		}
		for _, c := range b {
			denoms[c.Denom] = true
		}
		out := ""
		for _, d := range keysOf(denoms) {
			out += fmt.Sprintf("%s=%s;", d, a.AmountOf(d).Sub(b.AmountOf(d)).String())
		}
		return out
	}
	pool := sdk.NewDecCoinsFromCoins(bk.GetAllBalances(ctx, authtypes.NewModuleAddress(providertypes.ConsumerRewardsPool))...)
	credits := sdk.DecCoins{}
	for k, v := range snapStore(ctx, w.P.PApp.GetKey(providertypes.StoreKey)) {
		if k[0] != 55 {
			continue
		}
		var a providertypes.ConsumerRewardsAllocation
		if a.Unmarshal(v) == nil {
			credits = credits.Add(a.Rewards...)
		}
	}
	distr := sdk.NewDecCoinsFromCoins(bk.GetAllBalances(ctx, authtypes.NewModuleAddress(distrtypes.ModuleName))...)
	owed := sdk.DecCoins{}
	if fp, err := dk.FeePool.Get(ctx); err == nil {
		owed = owed.Add(fp.CommunityPool...)
	}
	dk.IterateValidatorOutstandingRewards(ctx, func(_ sdk.ValAddress, r distrtypes.ValidatorOutstandingRewards) bool {
		owed = owed.Add(r.Rewards...)
		return false
	})
	return map[string]string{"pool-minus-credits": sub(pool, credits), "distribution-minus-owed": sub(distr, owed)}
}

func (w *World) clientCount() int {
	n := 0
	w.P.PApp.IBCKeeper.ClientKeeper.IterateClientStates(w.P.Ctx(), nil, func(string, ibcexported.ClientState) bool { n++; return false })
	return n
}

const RewardDenom = "ibc/27394FB092D2ECCD56123C74F36E4C1F926001CEADA9CA97EA622B25F41E5EB2"
const RewardDenom2 = "ibc/C4CFF46FD6DE35CA4CF4CE031E643C8FDC9BA4B99AE598E9B0ED98FE3A2319F9"

// runC19Scenario executes one deterministic scenario; the block under test is executed with an error injected
// into its injectAt-th in-scope boundary call (injectAt < 0: fault-free baseline).
func runC19Scenario(t testing.TB, seed int64, scenario string, variant, injectAt int) *c19Outcome {
	cfg := MakeConfig("lifecycle", "quick", seed, 5000+variant)
	cfg.LiveConsumers = 0
	cfg.Profile = "fault-" + scenario
	cfg.BlocksPerEpoch = 3
	if scenario == "send" || scenario == "delete" {
		cfg.LiveConsumers = 2
		cfg.HandshakeDelayMax = 0
		cfg.BlocksPerEpoch = 1
	}
	w := NewWorld(t, fmt.Sprintf("c19-%s-%d-%d-%d", scenario, seed, variant, injectAt), cfg)
	w.Init(&Probes{})
	out := &c19Outcome{Scenario: scenario, InjectAt: injectAt}
	owner := w.Accts["owner0"]
	quiet := func(n int) {
		for i := 0; i < n; i++ {
			w.Tick()
			w.ProviderStep(nil, false, nil)
		}
	}
	// arms the recorder for the next provider block and runs it
	under := func(scope string, specs []TxSpec) {
		pre, preKeys := w.consumerKeyDigests()
		out.Pre, out.PreKeys, out.PreBal = pre, preKeys, w.c19Balances()
		out.PreCons = w.c19Conservation()
		w.Calls.Scope = scope
		w.Calls.Armed = injectAt >= 0
		w.Calls.InjectAt = injectAt
		w.ProviderStep(specs, false, nil)
		w.Calls.Armed = false
		for _, c := range w.Calls.InBlockCalls() {
			if c.Scope == scope {
				out.Calls = append(out.Calls, c)
			}
		}
		out.Injected = w.Calls.Injected
		if w.P.Halted {
			out.BlockErr = w.P.HaltReason
			return
		}
		out.Post, out.PostKeys = w.consumerKeyDigests()
		out.Balances = w.c19Balances()
		out.Cons = w.c19Conservation()
		out.Clients = w.clientCount()
		out.Phases = map[string]string{}
		for _, id := range w.P.PApp.ProviderKeeper.GetAllConsumerIds(w.P.Ctx()) {
			out.Phases[id] = w.Phase(id).String()
		}
	}
	nCons := 3 + variant%3
	mkConsumers := func(spawn time.Time, allow bool) []string {
		var ids []string
		for i := 0; i < nCons; i++ {
			msg := MsgCreateConsumer(owner, fmt.Sprintf("f%d", i), DefaultInitParams(spawn, w.Cfg.ConsumerUnbonding), nil, nil)
			if allow {
				msg.AllowlistedRewardDenoms = &providertypes.AllowlistedRewardDenoms{Denoms: []string{RewardDenom, RewardDenom2}}
			}
			ids = append(ids, func() string {
				o := w.soloOK(TxSpec{Signer: owner, Msgs: []sdk.Msg{msg}, Tag: "create-consumer"})
				return eventAttr(o.Result.Events, providertypes.EventTypeCreateConsumer, providertypes.AttributeConsumerId)
			}())
		}
		var specs []TxSpec
		for j, id := range ids {
			for _, v := range w.createdVals() {
				if (v.Idx+j)%4 == 3 {
					continue
				}
				specs = append(specs, TxSpec{Signer: v.Oper, Msgs: []sdk.Msg{MsgOptIn(v, id, nil)}, Tag: "opt-in"})
			}
		}
		w.Tick()
		w.ProviderStep(specs, false, nil)
		return ids
	}
	switch scenario {
	case "launch":
		spawn := w.Now.Add(2 * time.Minute)
		out.Consumers = mkConsumers(spawn, false)
		quiet(2)
		w.Now = spawn.Add(time.Duration(variant%2) * time.Nanosecond)
		under("launch", nil)
	case "delete":
		// two live consumers with established channels are stopped in the same block; the deletion block follows one unbonding period later
		w.setupLive()
		for i := 0; i < 40; i++ {
			w.Step++
			w.Tick()
			w.ProviderStep(nil, false, nil)
			w.ConsumersStep()
			done := true
			for _, ci := range w.Shadow.Consumers {
				if !ci.ChanOpen {
					done = false
				}
			}
			if done && i > 6 {
				break
			}
		}
		var specs []TxSpec
		for _, ci := range w.Shadow.Consumers {
			out.Consumers = append(out.Consumers, ci.ID)
			w.syncShadow()
			signer := ci.Owner
			if signer == nil {
				continue // owned by governance (Top-N): not removed here
			}
			specs = append(specs, TxSpec{Signer: signer, Msgs: []sdk.Msg{&providertypes.MsgRemoveConsumer{ConsumerId: ci.ID, Owner: signer.Addr.String()}}, Tag: "remove-consumer"})
		}
		w.Tick()
		stopAt := w.Now
		w.ProviderStep(specs, false, nil)
		quiet(2)
		w.Now = stopAt.Add(w.Cfg.Unbonding)
		under("delete", nil)
	case "rewards":
		spawn := w.Now.Add(time.Minute)
		out.Consumers = mkConsumers(spawn, true)
		w.Now = spawn
		quiet(2)
		// validators become eligible after some epochs; the last consumer is credited while nobody is eligible yet (zero-power branch)
		quiet(int(w.Cfg.EpochsToRewards*cfg.BlocksPerEpoch) + 2)
		late := MsgCreateConsumer(owner, "flate", DefaultInitParams(w.Now.Add(30*time.Second), w.Cfg.ConsumerUnbonding), nil, nil)
		late.AllowlistedRewardDenoms = &providertypes.AllowlistedRewardDenoms{Denoms: []string{RewardDenom, RewardDenom2}}
		o := w.soloOK(TxSpec{Signer: owner, Msgs: []sdk.Msg{late}, Tag: "create-consumer"})
		lateID := eventAttr(o.Result.Events, providertypes.EventTypeCreateConsumer, providertypes.AttributeConsumerId)
		var specs []TxSpec
		for _, v := range w.createdVals() {
			specs = append(specs, TxSpec{Signer: v.Oper, Msgs: []sdk.Msg{MsgOptIn(v, lateID, nil)}, Tag: "opt-in"})
		}
		w.Tick()
		w.ProviderStep(specs, false, nil)
		for i := 0; i < 12 && w.Phase(lateID) != phLaunch; i++ {
			quiet(1)
		}
		out.Consumers = append(out.Consumers, lateID)
		// fund the pool, then credit the consumers (what the transfer middleware does when rewards arrive)
		pool := authtypes.NewModuleAddress(providertypes.ConsumerRewardsPool)
		total := int64(0)
		amts := make([]int64, len(out.Consumers))
		for i := range out.Consumers {
			amts[i] = int64(1_000_003 + 77_777*i)
			total += amts[i]
		}
		// every consumer is credited in two denoms (several consumers share each denom)
		extra := int64(len(out.Consumers))
		send := banktypes.NewMsgSend(w.Accts["faucet"].Addr, pool, sdk.NewCoins(sdk.NewCoin(RewardDenom, math.NewInt(total+extra)), sdk.NewCoin(RewardDenom2, math.NewInt(2*total+extra))))
		w.Tick()
		w.ProviderStep([]TxSpec{{Signer: w.Accts["faucet"], Msgs: []sdk.Msg{send}, Tag: "fund-pool"}}, true, nil)
		wctx := w.P.WriteCtx()
		for i, id := range out.Consumers {
			for j, denom := range []string{RewardDenom, RewardDenom2} {
				alloc := providertypes.ConsumerRewardsAllocation{Rewards: sdk.NewDecCoins(sdk.NewDecCoinFromDec(denom, math.LegacyNewDec(amts[i]*int64(j+1)).Add(math.LegacyNewDecWithPrec(5, 1))))}
				if err := w.P.PApp.ProviderKeeper.SetConsumerRewardsAllocationByDenom(wctx, id, denom, alloc); err != nil {
					panic(err)
				}
			}
		}
		// the allocation happens in the BeginBlock of the next block: that is the block under test
		w.Tick()
		under("rewards", nil)
	case "send":
		w.setupLive()
		for i := 0; i < 40; i++ {
			w.Step++
			w.Tick()
			w.ProviderStep(nil, false, nil)
			w.ConsumersStep()
			done := true
			for _, ci := range w.Shadow.Consumers {
				if !ci.ChanOpen {
					done = false
				}
			}
			if done && i > 6 {
				break
			}
		}
		for _, ci := range w.Shadow.Consumers {
			out.Consumers = append(out.Consumers, ci.ID)
		}
		d := w.Accts["deleg0"]
		w.Tick()
		under("send", []TxSpec{{Signer: d, Msgs: []sdk.Msg{MsgDelegate(d, w.Vals[0], 9_000_000), MsgDelegate(d, w.Vals[1], 5_000_000)}, Tag: "delegate"}})
	}
	// the chain must keep going afterwards
	if out.BlockErr == "" {
		quiet(3)
		if w.P.Halted {
			out.LaterErr = w.P.HaltReason
		}
	}
	return out
}

// TestC19Child runs one scenario execution in its own process and writes the outcome.
func TestC19Child(t *testing.T) {
	spec := os.Getenv("VERIF_C19")
	if spec == "" {
		t.Skip()
	}
	var scenario string
	var seed int64
	var variant, k int
	fmt.Sscanf(spec, "%s %d %d %d", &scenario, &seed, &variant, &k)
	var out *c19Outcome
	func() {
		defer func() {
			if r := recover(); r != nil {
				out = &c19Outcome{Scenario: scenario, InjectAt: k, BlockErr: fmt.Sprintf("harness panic: %v", r)}
			}
		}()
		out = runC19Scenario(t, seed, scenario, variant, k)
	}()
	bz, _ := json.Marshal(out)
	os.WriteFile(os.Getenv("VERIF_C19_OUT"), bz, 0o644)
}

func runC19Child(bin, outdir, scenario string, seed int64, variant, k int) (*c19Outcome, error) {
	op := fmt.Sprintf("%s/c19-%s-%d-%d-%d.json", outdir, scenario, seed, variant, k)
	cmd := exec.Command(bin, "-test.run", "TestC19Child$", "-test.timeout", "0")
	cmd.Env = append(os.Environ(), fmt.Sprintf("VERIF_C19=%s %d %d %d", scenario, seed, variant, k), "VERIF_C19_OUT="+op, "VERIF_DIRECTED=")
	if b, err := cmd.CombinedOutput(); err != nil {
		return nil, fmt.Errorf("%v: %s", err, tail(b))
	}
	defer os.Remove(op)
	bz, err := os.ReadFile(op)
	if err != nil {
		return nil, err
	}
	var o c19Outcome
	if err := json.Unmarshal(bz, &o); err != nil {
		return nil, err
	}
	return &o, nil
}

// allowed key-prefix differences of the consumer whose operation was made to fail, relative to its state before the block
var c19Allowed = map[string]map[string]bool{
	"launch":  {"47": true, "49": true}, // spawn time cleared, phase registered
	"delete":  {},
	"rewards": {},
	"send":    {"17": true, "49": true, "50": true}, // packets kept, stopped and scheduled for removal
}

func keyDiffPrefixes(a, b []string) []string {
	am, bm := map[string]int{}, map[string]int{}
	for _, x := range a {
		am[x]++
	}
	for _, x := range b {
		bm[x]++
	}
	set := map[string]bool{}
	for x, n := range am {
		if bm[x] != n {
			set[x[:indexByte(x, ':')]] = true
		}
	}
	for x, n := range bm {
		if am[x] != n {
			set[x[:indexByte(x, ':')]] = true
		}
	}
	return keysOf(set)
}

func countPrefix(l []string, p string) int {
	n := 0
	for _, x := range l {
		if x[:indexByte(x, ':')] == p {
			n++
		}
	}
	return n
}

func indexByte(s string, c byte) int {
	for i := 0; i < len(s); i++ {
		if s[i] == c {
			return i
		}
	}
	return len(s)
}

// TestC19Faults enumerates, for each multi-consumer block under test, every boundary call made inside the per-consumer
// operation and re-executes the scenario with an error injected at exactly that call.
func TestC19Faults(t *testing.T) {
	runFaultEnumeration(t, "c19-faults", []string{"launch", "delete", "rewards", "send"})
}

// TestC16RewardFaults is the rewards part of the same enumeration, run under C16: whatever fails inside a payout, no
// tokens are created or lost and nothing is paid that stays credited (violations are filed under C16 as well).
func TestC16RewardFaults(t *testing.T) {
	runFaultEnumeration(t, "c16-reward-faults", []string{"rewards"})
}

func runFaultEnumeration(t *testing.T, name string, scenarios []string) {
	if os.Getenv("VERIF_DIRECTED") == "" {
		t.Skip("directed test; run through ./check")
	}
	start := time.Now()
	seed, _ := strconv.ParseInt(os.Getenv("VERIF_SEED"), 10, 64)
	tier := os.Getenv("VERIF_TIER")
	outdir, bin := os.Getenv("VERIF_OUTDIR"), os.Getenv("VERIF_BIN")
	variants := 2
	if tier == "thorough" {
		variants = 8
	}
	agg := NewWorld(t, fmt.Sprintf("%s-%s-%d", name, tier, seed), Config{Seed: seed, Profile: "faults", Tier: tier})
	fatal := ""
	var mu sync.Mutex
	sem := make(chan struct{}, 14)
	var wg sync.WaitGroup
	for _, scenario := range scenarios {
		for variant := 0; variant < variants; variant++ {
			base, err := runC19Child(bin, outdir, scenario, seed, variant, -1)
			if err != nil {
				fatal += fmt.Sprintf("baseline %s/%d: %v\n", scenario, variant, err)
				continue
			}
			if base.BlockErr != "" || base.LaterErr != "" {
				agg.Violation("C19", "fault-free-block-failed:"+scenario, map[string]any{"error": base.BlockErr + base.LaterErr})
				continue
			}
			for what, pre := range base.PreCons {
				agg.Eval("C19")
				if !conservedC19(what, pre, base.Cons[what]) {
					agg.Violation("C19", fmt.Sprintf("tokens-created-or-lost-in-fault-free-block:%s:%s", what, scenario), map[string]any{"before": pre, "after": base.Cons[what], "variant": variant})
				}
			}
			n := len(base.Calls)
			agg.Event("C19", "blocks-enumerated-exhaustively")
			agg.EventN("C19", "call-sites:"+scenario, int64(n))
			if n == 0 {
				fatal += fmt.Sprintf("scenario %s/%d produced no in-scope calls\n", scenario, variant)
				continue
			}
			for k := 0; k < n; k++ {
				wg.Add(1)
				go func(scenario string, variant, k int, base *c19Outcome) {
					defer wg.Done()
					sem <- struct{}{}
					defer func() { <-sem }()
					o, err := runC19Child(bin, outdir, scenario, seed, variant, k)
					mu.Lock()
					defer mu.Unlock()
					if err != nil {
						fatal += fmt.Sprintf("inject %s/%d/%d: %v\n", scenario, variant, k, err)
						return
					}
					judgeC19(agg, base, o, variant)
				}(scenario, variant, k, base)
			}
		}
	}
	wg.Wait()
	agg.Finish(os.Getenv("VERIF_OUT"), start, fatal)
}

// conservedC19 compares one conservation measure before and after a block: exactly for the pool, up to one base unit per denom for
// the distribution module (truncation dust, see c19Conservation).
func conservedC19(what, pre, post string) bool {
	if what == "pool-minus-credits" {
		return pre == post
	}
	parse := func(s string) map[string]math.LegacyDec {
		m := map[string]math.LegacyDec{}
		for _, kv := range strings.Split(s, ";") {
			if i := strings.LastIndexByte(kv, '='); i > 0 {
				if d, err := math.LegacyNewDecFromStr(kv[i+1:]); err == nil {
					m[kv[:i]] = d
				}
			}
		}
		return m
	}
	a, b := parse(pre), parse(post)
	for d := range b {
		if _, ok := a[d]; !ok {
			a[d] = math.LegacyZeroDec()
		}
	}
	for d, av := range a {
		bv, ok := b[d]
		if !ok {
			bv = math.LegacyZeroDec()
		}
		if av.Sub(bv).Abs().GTE(math.LegacyOneDec()) {
			return false
		}
	}
	return true
}

func judgeC19(w *World, base, o *c19Outcome, variant int) {
	site := "<none>"
	if o.Injected != nil {
		site = o.Injected.Method
	}
	w.Eval("C19")
	w.Event("C19", "injected-executions")
	if o.Injected == nil {
		w.Event("C19", "injection-point-not-reached")
		return
	}
	tag := fmt.Sprintf("%s:%s", o.Scenario, site)
	det := func(extra map[string]any) map[string]any {
		m := map[string]any{"scenario": o.Scenario, "variant": variant, "inject_at": o.InjectAt, "call": site, "args": o.Injected.Args}
		for k, v := range extra {
			m[k] = v
		}
		return m
	}
	if o.BlockErr != "" {
		w.Violation("C19", "block-failed-under-injected-fault:"+tag, det(map[string]any{"error": o.BlockErr}))
		return
	}
	if o.LaterErr != "" {
		w.Violation("C19", "chain-halted-after-injected-fault:"+tag, det(map[string]any{"error": o.LaterErr}))
		return
	}
	// token conservation across the block under test, whatever failed
	for what, pre := range o.PreCons {
		w.Eval("C19")
		if o.Scenario == "rewards" {
			w.Eval("C16")
			w.Event("C16", "conservation-checks-under-injected-payout-faults")
		}
		if !conservedC19(what, pre, o.Cons[what]) {
			w.Violation("C19", fmt.Sprintf("tokens-created-or-lost-under-injected-fault:%s:%s", what, tag), det(map[string]any{"before": pre, "after": o.Cons[what]}))
			if o.Scenario == "rewards" {
				w.Violation("C16", fmt.Sprintf("tokens-created-or-lost-when-a-payout-fails:%s:%s", what, site), det(map[string]any{"before": pre, "after": o.Cons[what]}))
			}
		}
	}
	// which consumer's result differs from the fault-free run? (light-client ids shift when an earlier launch fails:
	// the client binding itself - prefixes 7 and 53 - is compared by presence, not by id)
	var differ []string
	for _, id := range o.Consumers {
		d := keyDiffPrefixes(base.PostKeys[id], o.PostKeys[id])
		real := false
		for _, p := range d {
			if (p == "7" || p == "53") && countPrefix(base.PostKeys[id], p) == countPrefix(o.PostKeys[id], p) {
				continue
			}
			real = true
		}
		if real || o.Phases[id] != base.Phases[id] {
			differ = append(differ, id)
		}
	}
	pos := "none"
	if len(differ) == 1 {
		for i, id := range o.Consumers {
			if id == differ[0] {
				switch {
				case i == 0:
					pos = "first"
				case i == len(o.Consumers)-1:
					pos = "last"
				default:
					pos = "middle"
				}
			}
		}
	}
	w.Case("C19", fmt.Sprintf("%s pos=%s", tag, pos))
	if len(w.st("C19").Samples) < 4 {
		w.Sample("C19", det(map[string]any{"differing_consumers": differ, "calls_in_block": len(base.Calls)}))
	}
	if len(differ) > 1 {
		w.Violation("C19", "fault-in-one-operation-affected-several-consumers:"+tag, det(map[string]any{"differ": differ}))
		return
	}
	if len(differ) == 0 {
		// the failing call did not change any consumer's outcome (e.g. a failure that the code tolerates): balances must agree too
		if fmt.Sprint(o.Balances) != fmt.Sprint(base.Balances) {
			w.Violation("C19", "balances-differ-without-affected-consumer:"+tag, det(map[string]any{"balances": o.Balances, "baseline": base.Balances}))
		}
		return
	}
	hit := differ[0]
	// the hit consumer must be back at its pre-block state, up to the documented fallback
	// (a failed send happens after the epoch's set computation: it is compared with the fault-free result instead)
	diffs := keyDiffPrefixes(o.PreKeys[hit], o.PostKeys[hit])
	if o.Scenario == "send" {
		diffs = keyDiffPrefixes(base.PostKeys[hit], o.PostKeys[hit])
	}
	if o.Scenario == "rewards" {
		// the unit that fails is one (consumer, denom) payout: every key of the hit consumer is either as before the block
		// (the failed payout) or as in the fault-free run (its other denoms)
		diffs = nil
		pre, good := map[string]bool{}, map[string]bool{}
		for _, x := range o.PreKeys[hit] {
			pre[x] = true
		}
		for _, x := range base.PostKeys[hit] {
			good[x] = true
		}
		set := map[string]bool{}
		for _, x := range o.PostKeys[hit] {
			if !pre[x] && !good[x] {
				set[x[:indexByte(x, ':')]] = true
			}
		}
		diffs = keysOf(set)
	}
	for _, p := range diffs {
		if !c19Allowed[o.Scenario][p] {
			w.Violation("C19", fmt.Sprintf("failed-operation-not-rolled-back:%s:prefix%s", tag, p), det(map[string]any{"consumer": hit, "changed_prefixes": diffs, "phase": o.Phases[hit]}))
			break
		}
	}
	switch o.Scenario {
	case "launch":
		if o.Phases[hit] != phReg.String() {
			w.Violation("C19", "failed-launch-phase:"+tag, det(map[string]any{"consumer": hit, "phase": o.Phases[hit]}))
		}
		if o.Clients != base.Clients-1 {
			w.Violation("C19", "failed-launch-leaked-or-lost-client:"+tag, det(map[string]any{"clients": o.Clients, "baseline": base.Clients}))
		}
	case "delete":
		if o.Phases[hit] != phStopped.String() {
			w.Violation("C19", "failed-deletion-phase:"+tag, det(map[string]any{"consumer": hit, "phase": o.Phases[hit]}))
		}
	case "send":
		if o.Phases[hit] != phStopped.String() && o.Phases[hit] != phLaunch.String() {
			w.Violation("C19", "failed-send-phase:"+tag, det(map[string]any{"consumer": hit, "phase": o.Phases[hit]}))
		}
	}
}
