package sim

import (
	"bytes"
	"encoding/binary"
	"fmt"
	"sort"

	storetypes "cosmossdk.io/store/types"

	sdk "github.com/cosmos/cosmos-sdk/types"

	providertypes "github.com/cosmos/interchain-security/v7/x/ccv/provider/types"
)

// StoreSnap is a full copy of one KV store.
type StoreSnap map[string][]byte

func snapStore(ctx sdk.Context, key storetypes.StoreKey) StoreSnap {
	st := ctx.KVStore(key)
	it := st.Iterator(nil, nil)
	defer it.Close()
	out := StoreSnap{}
	for ; it.Valid(); it.Next() {
		out[string(it.Key())] = append([]byte(nil), it.Value()...)
	}
	return out
}

// KeyChange is one changed key between two snapshots.
type KeyChange struct {
	Key      []byte
	Old, New []byte // nil = absent
}

func diffSnap(a, b StoreSnap) []KeyChange {
	var out []KeyChange
	for k, va := range a {
		vb, ok := b[k]
		if !ok {
			out = append(out, KeyChange{Key: []byte(k), Old: va})
		} else if !bytes.Equal(va, vb) {
			out = append(out, KeyChange{Key: []byte(k), Old: va, New: vb})
		}
	}
	for k, vb := range b {
		if _, ok := a[k]; !ok {
			out = append(out, KeyChange{Key: []byte(k), New: vb})
		}
	}
	sort.Slice(out, func(i, j int) bool { return bytes.Compare(out[i].Key, out[j].Key) < 0 })
	return out
}

// key-layout classes of the provider store (written from x/ccv/provider/types/keys.go)
const (
	klGlobal  = iota // not per consumer
	klLegacy         // prefix | consumerId
	klLenPref        // prefix | len(8) | consumerId | ...
	klByValue        // prefix | <other id>, value = consumer id
	klTimeQ          // prefix | time, value = ConsumerIds
)

var providerKeyLayout = map[byte]int{
	0xFF: klGlobal, 0: klGlobal, 2: klGlobal, 3: klGlobal, 4: klGlobal, 13: klGlobal, 26: klGlobal, 27: klGlobal, 42: klGlobal, 43: klGlobal,
	5: klLegacy, 7: klLegacy, 14: klLegacy, 15: klLegacy, 16: klLegacy, 17: klLegacy, 29: klLegacy,
	6: klByValue, 53: klByValue,
	22: klLenPref, 23: klLenPref, 31: klLenPref, 32: klLenPref, 36: klLenPref, 37: klLenPref, 39: klLenPref, 40: klLenPref, 41: klLenPref,
	44: klLenPref, 45: klLenPref, 46: klLenPref, 47: klLenPref, 48: klLenPref, 49: klLenPref, 50: klLenPref, 54: klLenPref, 55: klLenPref,
	56: klLenPref, 57: klLenPref, 58: klLenPref,
	51: klTimeQ, 52: klTimeQ, 59: klTimeQ,
}

// deprecated prefixes must never appear
var providerDeprecated = map[byte]bool{1: true, 8: true, 9: true, 10: true, 11: true, 12: true, 18: true, 19: true, 20: true, 21: true, 24: true, 25: true,
	28: true, 30: true, 33: true, 34: true, 35: true, 38: true}

// validateKeyLayout cross-checks the decoder against the repository's own prefix table; an unknown prefix makes
// attribution impossible (=> inconclusive, reported by the caller).
func validateKeyLayout() error {
	for _, p := range providertypes.GetAllKeyPrefixes() {
		if _, ok := providerKeyLayout[p]; !ok && !providerDeprecated[p] {
			return fmt.Errorf("provider key prefix %d is unknown to the decoder", p)
		}
	}
	// spot checks with the repository's constructors
	if ownerOfKey(providertypes.OptedInKey("12", providertypes.NewProviderConsAddress([]byte("aaaaaaaaaaaaaaaaaaaa"))), nil).owner != "12" {
		return fmt.Errorf("decoder disagrees with OptedInKey")
	}
	if ownerOfKey(providertypes.ConsumerIdToClientIdKey("7"), nil).owner != "7" {
		return fmt.Errorf("decoder disagrees with ConsumerIdToClientIdKey")
	}
	if ownerOfKey(providertypes.ConsumerIdToPhaseKey("10"), nil).owner != "10" {
		return fmt.Errorf("decoder disagrees with ConsumerIdToPhaseKey")
	}
	return nil
}

type keyOwner struct {
	prefix byte
	class  int
	owner  string   // consumer id for per-consumer keys
	ids    []string // for time queues: ids in the value
	known  bool
}

func ownerOfKey(key, value []byte) keyOwner {
	if len(key) == 0 {
		return keyOwner{}
	}
	p := key[0]
	cl, ok := providerKeyLayout[p]
	if !ok {
		return keyOwner{prefix: p}
	}
	o := keyOwner{prefix: p, class: cl, known: true}
	switch cl {
	case klLegacy:
		o.owner = string(key[1:])
	case klLenPref:
		if len(key) < 9 {
			o.known = false
			return o
		}
		n := binary.BigEndian.Uint64(key[1:9])
		if uint64(len(key)) < 9+n {
			o.known = false
			return o
		}
		o.owner = string(key[9 : 9+n])
	case klByValue:
		o.owner = string(value)
	case klTimeQ:
		var ids providertypes.ConsumerIds
		if value != nil && ids.Unmarshal(value) == nil {
			o.ids = ids.Ids
		}
	}
	return o
}

// changedOwners classifies a diff: per-consumer owners touched, global prefixes touched, ids moved in/out of time queues.
type diffSummary struct {
	Owners   map[string][]byte // consumer id -> prefixes touched
	Globals  map[byte]int
	QueueIDs map[string]bool // ids that were added to or removed from some time queue
	Unknown  []string
}

func summarizeDiff(changes []KeyChange) diffSummary {
	s := diffSummary{Owners: map[string][]byte{}, Globals: map[byte]int{}, QueueIDs: map[string]bool{}}
	for _, ch := range changes {
		v := ch.New
		if v == nil {
			v = ch.Old
		}
		o := ownerOfKey(ch.Key, v)
		if !o.known {
			s.Unknown = append(s.Unknown, fmt.Sprintf("%x", ch.Key))
			continue
		}
		switch o.class {
		case klGlobal:
			s.Globals[o.prefix]++
		case klTimeQ:
			s.Globals[o.prefix]++
			oldIDs := ownerOfKey(ch.Key, ch.Old).ids
			newIDs := ownerOfKey(ch.Key, ch.New).ids
			cnt := map[string]int{}
			for _, id := range oldIDs {
				cnt[id]--
			}
			for _, id := range newIDs {
				cnt[id]++
			}
			for id, c := range cnt {
				if c != 0 {
					s.QueueIDs[id] = true
				}
			}
		case klByValue:
			// both the old and the new owner are affected
			if ch.Old != nil {
				s.Owners[string(ch.Old)] = append(s.Owners[string(ch.Old)], o.prefix)
			}
			if ch.New != nil {
				s.Owners[string(ch.New)] = append(s.Owners[string(ch.New)], o.prefix)
			}
		default:
			s.Owners[o.owner] = append(s.Owners[o.owner], o.prefix)
		}
	}
	return s
}
