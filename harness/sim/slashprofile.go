package sim

import (
	"fmt"

	abci "github.com/cometbft/cometbft/abci/types"

	sdk "github.com/cosmos/cosmos-sdk/types"
	stakingtypes "github.com/cosmos/cosmos-sdk/x/staking/types"

	providertypes "github.com/cosmos/interchain-security/v7/x/ccv/provider/types"
	ccv "github.com/cosmos/interchain-security/v7/x/ccv/types"
)

type downPlan struct {
	addr      string // validator address (hex upper, as in cmttypes.Address.String())
	remaining int
}

// installSlashHooks makes validators miss blocks on live consumers (real x/slashing downtime detection) and lets a
// "malicious consumer" enqueue hand-crafted slash packets.
func (w *World) installSlashHooks() {
	plans := map[string]*downPlan{}
	hostileBudget := map[string]int{}
	everJailed := map[string]bool{}
	neverIssuedSent := false
	w.consumerExtra = func(l *Link) ([]TxSpec, *BlockOpts) {
		c := l.C
		ci := w.Shadow.ByID[l.CID]
		if ci == nil || !ci.ChanOpen || c.PrevVals == nil {
			return nil, nil
		}
		opts := &BlockOpts{Absent: map[string]bool{}}
		p := plans[l.CID]
		if p == nil || p.remaining <= 0 {
			for _, sv := range w.StakingSnapshot(w.P.Ctx()) {
				if sv.Jailed {
					everJailed[consHex(sv.ConsAddr)] = true
				}
			}
			if w.Rnd.Intn(5) == 0 && len(c.PrevVals.Validators) > 1 {
				v := c.PrevVals.Validators[w.Rnd.Intn(len(c.PrevVals.Validators))]
				if w.Rnd.Intn(2) == 0 {
					// prefer a validator that was jailed before and is back in the set (its staking record still carries the
					// unbonding height / time of the earlier episode)
					for _, cv := range c.PrevVals.Validators {
						pa := w.P.PApp.ProviderKeeper.GetProviderAddrFromConsumerAddr(w.P.Ctx(), l.CID, providertypes.NewConsumerConsAddress(sdk.ConsAddress(cv.Address)))
						if everJailed[consHex(pa.ToSdkConsAddr())] {
							v = cv
							w.Event("C08", "downtime-planned-for-a-validator-jailed-before")
							break
						}
					}
				}
				p = &downPlan{addr: v.Address.String(), remaining: 4 + w.Rnd.Intn(4)}
				plans[l.CID] = p
				w.Op("downtime on %s: %s for %d blocks", l.CID, w.keyName(v.Address), p.remaining)
			}
		}
		if p != nil && p.remaining > 0 {
			opts.Absent[p.addr] = true
			p.remaining--
		}
		// hostile packets
		if w.Cfg.Hostile && hostileBudget[l.CID] < 12 && w.Rnd.Intn(7) == 0 {
			hostileBudget[l.CID]++
			w.injectHostileSlash(l, false)
		}
		// every hostile world sends at least one report with an update id the provider never issued (answered with an error
		// acknowledgement that carries the packet); in the second half, because the consumer closes its channel end when it sees that
		// answer; it jumps the queue (right behind the head, which may be in flight) so that it is delivered before the world ends
		if w.Cfg.Hostile && !neverIssuedSent && w.Step >= w.Cfg.Steps/2 {
			neverIssuedSent = true
			w.injectHostileSlash(l, true)
		}
		return nil, opts
	}
}

// keyName names a consensus address (provider key or pooled key) for logs.
func (w *World) keyName(addr []byte) string {
	for _, v := range w.Vals {
		if consHex(v.Key.Addr) == consHex(addr) {
			return v.Key.Name
		}
	}
	for _, k := range w.KeyPool {
		if consHex(k.Addr) == consHex(addr) {
			return k.Name
		}
	}
	return consHex(addr)
}

// injectHostileSlash appends a crafted slash packet to the consumer's pending queue (a modified consumer binary).
func (w *World) injectHostileSlash(l *Link, forceNeverIssued bool) {
	pk := w.P.PApp.ProviderKeeper
	pctx := w.P.Ctx()
	var addr []byte
	kind := ""
	var also []*Link // further links on which the same validator is reported in the same step
	var alsoAddr [][]byte
	switch w.Rnd.Intn(9) {
	case 0: // current key of a validator in this consumer's set
		if vs, err := pk.GetConsumerValSet(pctx, l.CID); err == nil && len(vs) > 0 {
			v := vs[w.Rnd.Intn(len(vs))]
			if a, err := ccv.TMCryptoPublicKeyToConsAddr(*v.PublicKey); err == nil {
				addr, kind = a, "current"
			}
		}
	case 1: // a key pending pruning on this consumer (replaced)
		for _, p := range pk.GetAllConsumerAddrsToPrune(pctx, l.CID) {
			if len(p.ConsumerAddrs.Addresses) > 0 {
				addr, kind = p.ConsumerAddrs.Addresses[0], "replaced"
				break
			}
		}
	case 2: // a key assigned on another consumer
		for _, id := range w.Relay.Order {
			if id == l.CID {
				continue
			}
			for _, a := range pk.GetAllValidatorsByConsumerAddr(pctx, &id) {
				addr, kind = a.ConsumerAddr, "other-consumer"
				break
			}
		}
	case 3: // random bytes
		addr = make([]byte, 20)
		w.Rnd.Read(addr)
		kind = "random"
	case 4: // provider key of some validator (maybe opted out, maybe with an assigned key)
		addr, kind = w.randVal().ConsAddr(), "provider-key"
	case 5: // provider key of a validator that is not in the consumer's set
		if vs, err := pk.GetConsumerValSet(pctx, l.CID); err == nil {
			in := map[string]bool{}
			for _, v := range vs {
				in[consHex(v.ProviderConsAddr)] = true
			}
			for _, v := range w.createdVals() {
				if !in[consHex(v.ConsAddr())] {
					addr, kind = v.ConsAddr(), "not-in-set"
					break
				}
			}
		}
	case 6: // a member of this consumer's stored set that is already jailed on the provider (window until the next epoch)
		jailed := map[string]bool{}
		for _, sv := range w.StakingSnapshot(pctx) {
			if sv.Jailed {
				jailed[consHex(sv.ConsAddr)] = true
			}
		}
		if vs, err := pk.GetConsumerValSet(pctx, l.CID); err == nil {
			for _, v := range vs {
				if jailed[consHex(v.ProviderConsAddr)] {
					if a, err := ccv.TMCryptoPublicKeyToConsAddr(*v.PublicKey); err == nil {
						addr, kind = a, "in-set-but-jailed"
						break
					}
				}
			}
		}
	case 7: // the same validator reported by every live consumer at once (the reports can meet in one provider block)
		if vs, err := pk.GetConsumerValSet(pctx, l.CID); err == nil && len(vs) > 0 {
			v := vs[w.Rnd.Intn(len(vs))]
			if a, err := ccv.TMCryptoPublicKeyToConsAddr(*v.PublicKey); err == nil {
				addr, kind = a, "current-on-all-consumers"
				for _, ol := range w.LiveLinks() {
					if ol == l || ol.C == nil || ol.C.Halted {
						continue
					}
					if ovs, err := pk.GetConsumerValSet(pctx, ol.CID); err == nil {
						for _, ov := range ovs {
							if consHex(ov.ProviderConsAddr) == consHex(v.ProviderConsAddr) {
								if oa, err := ccv.TMCryptoPublicKeyToConsAddr(*ov.PublicKey); err == nil {
									also = append(also, ol)
									alsoAddr = append(alsoAddr, oa)
								}
							}
						}
					}
				}
			}
		}
	default:
		addr, kind = w.KeyPool[w.Rnd.Intn(len(w.KeyPool))].Addr, "pool"
	}
	if addr == nil {
		return
	}
	cur := pk.GetValidatorSetUpdateId(pctx)
	var vsc uint64
	vk := ""
	switch w.Rnd.Intn(10) {
	case 0:
		vsc, vk = 0, "zero"
	case 1:
		if w.Step > w.Cfg.Steps/2 {
			vsc, vk = cur+1000, "never-issued"
		} else {
			vsc, vk = cur, "current"
		}
	case 2, 3:
		vsc, vk = cur, "current"
	default:
		vsc, vk = 1+uint64(w.Rnd.Int63n(int64(cur))), "old"
	}
	if forceNeverIssued {
		vsc, vk = cur+1000, "never-issued"
	}
	inf := stakingtypes.Infraction_INFRACTION_DOWNTIME
	if w.Rnd.Intn(4) == 0 || (vk == "never-issued" && w.Rnd.Intn(2) == 0) {
		inf = stakingtypes.Infraction_INFRACTION_DOUBLE_SIGN
	}
	data := ccv.NewSlashPacketData(abci.Validator{Address: addr, Power: 1 + w.Rnd.Int63n(50)}, vsc, inf)
	if l.C.Rec != nil {
		l.C.Rec.Tainted = true
	}
	if ck, wctx := l.C.CApp.ConsumerKeeper, l.C.WriteCtx(); forceNeverIssued {
		all := ck.GetAllPendingPacketsWithIdx(wctx)
		if len(all) > 1 {
			var idxs []uint64
			for _, p := range all[1:] {
				idxs = append(idxs, p.Idx)
			}
			ck.DeletePendingDataPackets(wctx, idxs...)
		}
		ck.AppendPendingPacket(wctx, ccv.SlashPacket, &ccv.ConsumerPacketData_SlashPacketData{SlashPacketData: data})
		if len(all) > 1 {
			for _, p := range all[1:] {
				ck.AppendPendingPacket(wctx, p.Type, p.Data)
			}
		}
	} else {
		ck.AppendPendingPacket(wctx, ccv.SlashPacket, &ccv.ConsumerPacketData_SlashPacketData{SlashPacketData: data})
	}
	if w.hostileQueued == nil {
		w.hostileQueued = map[string]int{}
	}
	w.hostileQueued[l.CID]++
	for i, ol := range also {
		if inf != stakingtypes.Infraction_INFRACTION_DOWNTIME {
			break
		}
		od := ccv.NewSlashPacketData(abci.Validator{Address: alsoAddr[i], Power: 1 + w.Rnd.Int63n(50)}, vsc, inf)
		if ol.C.Rec != nil {
			ol.C.Rec.Tainted = true
		}
		ol.C.CApp.ConsumerKeeper.AppendPendingPacket(ol.C.WriteCtx(), ccv.SlashPacket, &ccv.ConsumerPacketData_SlashPacketData{SlashPacketData: od})
		w.hostileQueued[ol.CID]++
		w.Event("C08", "hostile-packets-injected")
	}
	w.Op("hostile slash packet on %s: addr-kind=%s vsc=%s inf=%s", l.CID, kind, vk, inf)
	w.Event("C08", "hostile-packets-injected")
	w.Case("C08", fmt.Sprintf("hostile addr=%s vsc=%s inf=%s", kind, vk, inf))
	_ = providertypes.ModuleName
}
