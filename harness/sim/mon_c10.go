package sim

import (
	"fmt"
	"strconv"
	"time"

	storetypes "cosmossdk.io/store/types"

	abci "github.com/cometbft/cometbft/abci/types"

	sdk "github.com/cosmos/cosmos-sdk/types"

	providertypes "github.com/cosmos/interchain-security/v7/x/ccv/provider/types"
)

type phase = providertypes.ConsumerPhase

const (
	phUnspec  = providertypes.CONSUMER_PHASE_UNSPECIFIED
	phReg     = providertypes.CONSUMER_PHASE_REGISTERED
	phInit    = providertypes.CONSUMER_PHASE_INITIALIZED
	phLaunch  = providertypes.CONSUMER_PHASE_LAUNCHED
	phStopped = providertypes.CONSUMER_PHASE_STOPPED
	phDeleted = providertypes.CONSUMER_PHASE_DELETED
)

// cObs is one observation of a consumer's lifecycle-relevant state.
type cObs struct {
	Phase     phase
	Spawn     time.Time
	Owner     string
	TopN      uint32
	HasGen    bool
	ClientID  string
	ConnID    string
	ValSetLen int
	HasMinPow bool
	MinPow    int64
}

type queueEntry struct {
	TS  time.Time
	IDs []string
}

// monC10: lifecycle phase machine and launch schedule (also carries the standing C14 ownership invariant).
type monC10 struct {
	w         *World
	prev      map[string]cObs // last observation per consumer id
	prevCount uint64
	prevQueue []queueEntry
	seenFirst bool
	created   int
	issued    uint64 // ids issued so far according to successful create txs
}

func init() {
	registerMonitor(func(w *World) Monitor { return &monC10{w: w, prev: map[string]cObs{}} })
}

func (m *monC10) Name() string { return "C10" }

func (m *monC10) providerStore(ctx sdk.Context) storetypes.KVStore {
	return ctx.KVStore(m.w.P.PApp.GetKey(providertypes.StoreKey))
}

// readQueue decodes a time queue (prefix byte) in key order.
func readQueue(store storetypes.KVStore, prefix byte) ([]queueEntry, error) {
	it := storetypes.KVStorePrefixIterator(store, []byte{prefix})
	defer it.Close()
	var out []queueEntry
	for ; it.Valid(); it.Next() {
		ts, err := providertypes.ParseTime(prefix, it.Key())
		if err != nil {
			return nil, err
		}
		var ids providertypes.ConsumerIds
		if err := ids.Unmarshal(it.Value()); err != nil {
			return nil, err
		}
		out = append(out, queueEntry{TS: ts, IDs: append([]string(nil), ids.Ids...)})
	}
	return out, nil
}

func (m *monC10) observe(ctx sdk.Context) (map[string]cObs, uint64, []queueEntry) {
	pk := m.w.P.PApp.ProviderKeeper
	n, _ := pk.GetConsumerId(ctx)
	obs := make(map[string]cObs, n)
	for i := uint64(0); i < n; i++ {
		id := strconv.FormatUint(i, 10)
		o := cObs{Phase: pk.GetConsumerPhase(ctx, id)}
		if ip, err := pk.GetConsumerInitializationParameters(ctx, id); err == nil {
			o.Spawn = ip.SpawnTime
			o.ConnID = ip.ConnectionId
		}
		o.Owner, _ = pk.GetConsumerOwnerAddress(ctx, id)
		if ps, err := pk.GetConsumerPowerShapingParameters(ctx, id); err == nil {
			o.TopN = ps.Top_N
		}
		_, o.HasGen = pk.GetConsumerGenesis(ctx, id)
		o.ClientID, _ = pk.GetConsumerClientId(ctx, id)
		if vs, err := pk.GetConsumerValSet(ctx, id); err == nil {
			o.ValSetLen = len(vs)
		}
		o.MinPow, o.HasMinPow = pk.GetMinimumPowerInTopN(ctx, id)
		obs[id] = o
	}
	q, err := readQueue(m.providerStore(ctx), providertypes.SpawnTimeToConsumerIdsKeyPrefix())
	if err != nil {
		m.w.Violation("C10", "spawn-queue-undecodable", map[string]any{"error": err.Error()})
	}
	return obs, n, q
}

// reach reports whether `to` is reachable from `from` using the given edges (reflexive).
func reach(from, to phase, edges map[phase][]phase) bool {
	if from == to {
		return true
	}
	seen := map[phase]bool{from: true}
	stack := []phase{from}
	for len(stack) > 0 {
		p := stack[len(stack)-1]
		stack = stack[:len(stack)-1]
		for _, q := range edges[p] {
			if q == to {
				return true
			}
			if !seen[q] {
				seen[q] = true
				stack = append(stack, q)
			}
		}
	}
	return false
}

var beginEdges = map[phase][]phase{phInit: {phLaunch, phReg}, phStopped: {phDeleted}}
var txEdges = map[phase][]phase{phUnspec: {phReg, phInit}, phReg: {phInit}, phInit: {phReg}, phLaunch: {phStopped}}

func (m *monC10) standing(obs map[string]cObs, queue []queueEntry, where string) {
	w := m.w
	gov := GovAddr()
	inQueue := map[string]int{}
	at := map[string]time.Time{}
	for _, e := range queue {
		for _, id := range e.IDs {
			inQueue[id]++
			at[id] = e.TS
		}
	}
	for id, o := range obs {
		w.Eval("C10")
		if o.Phase == phReg || o.Phase == phInit {
			if (o.Phase == phInit) != !o.Spawn.IsZero() {
				w.Violation("C10", "initialized-iff-spawntime:"+where, map[string]any{"consumer": id, "phase": o.Phase.String(), "spawn": o.Spawn.String()})
			}
		}
		if o.Phase == phInit {
			if inQueue[id] != 1 {
				w.Violation("C10", "initialized-not-queued-exactly-once:"+where, map[string]any{"consumer": id, "times": inQueue[id], "spawn": o.Spawn.String()})
			} else if !at[id].Equal(o.Spawn) {
				w.Violation("C10", "queued-at-wrong-time:"+where, map[string]any{"consumer": id, "queued_at": at[id].String(), "spawn": o.Spawn.String()})
			}
		} else if inQueue[id] != 0 {
			w.Violation("C10", "non-initialized-in-spawn-queue:"+where, map[string]any{"consumer": id, "phase": o.Phase.String(), "times": inQueue[id]})
		}
		// C14 standing invariant: a Top-N value only under governance ownership, and within 50..100
		w.Eval("C14")
		if o.TopN != 0 {
			w.Event("C14", "topn-consumer-observed")
			if o.Owner != gov {
				w.Violation("C14", "topn-not-owned-by-gov:"+where, map[string]any{"consumer": id, "topN": o.TopN, "owner": o.Owner})
			}
			if o.TopN < 50 || o.TopN > 100 {
				w.Violation("C14", "topn-out-of-range:"+where, map[string]any{"consumer": id, "topN": o.TopN})
			}
		}
	}
	for id := range inQueue {
		if _, ok := obs[id]; !ok {
			w.Violation("C10", "unknown-id-in-spawn-queue:"+where, map[string]any{"consumer": id})
		}
	}
}

func (m *monC10) transitions(obs map[string]cObs, edges map[phase][]phase, where string) {
	w := m.w
	for id, o := range obs {
		p, ok := m.prev[id]
		if !ok {
			p = cObs{Phase: phUnspec}
		}
		if p.Phase != o.Phase {
			w.Event("C10", "transition:"+p.Phase.String()+"->"+o.Phase.String())
			w.Case("C10", "transition:"+where+":"+p.Phase.String()+"->"+o.Phase.String())
		}
		if !reach(p.Phase, o.Phase, edges) {
			w.Violation("C10", "illegal-transition:"+where+":"+p.Phase.String()+"->"+o.Phase.String(), map[string]any{"consumer": id})
		}
	}
	for id := range m.prev {
		if _, ok := obs[id]; !ok {
			w.Violation("C10", "consumer-id-disappeared:"+where, map[string]any{"consumer": id})
		}
	}
}

func (m *monC10) PostBegin(ctx sdk.Context) {
	w := m.w
	obs, n, q := m.observe(ctx)
	if m.seenFirst {
		if n != m.prevCount {
			w.Violation("C10", "id-counter-changed-in-beginblock", map[string]any{"before": m.prevCount, "after": n})
		}
		m.transitions(obs, beginEdges, "begin")
		m.launchRule(ctx, obs)
	}
	m.standing(obs, q, "post-begin")
	m.prev, m.prevCount, m.prevQueue, m.seenFirst = obs, n, q, true
	m.created = 0
}

// launchRule checks the block's launch attempts against the queue observed at the end of the previous block.
func (m *monC10) launchRule(ctx sdk.Context, obs map[string]cObs) {
	w := m.w
	pk := w.P.PApp.ProviderKeeper
	now := ctx.BlockTime()
	var due []string
	for _, e := range m.prevQueue {
		if e.TS.After(now) {
			break
		}
		due = append(due, e.IDs...)
	}
	attempted := due
	if len(attempted) > 200 {
		attempted = attempted[:200]
		w.Event("C10", "blocks-with-more-than-200-due")
	}
	if len(due) > 0 {
		w.Case("C10", fmt.Sprintf("due-bucket:%s", bucket(len(due))))
	}
	isAttempted := map[string]bool{}
	for _, id := range attempted {
		isAttempted[id] = true
		o := obs[id]
		p := m.prev[id]
		w.Eval("C10")
		w.Event("C10", "launch-attempts")
		switch o.Phase {
		case phLaunch:
			w.Event("C10", "launch-ok")
			if !o.HasGen {
				w.Violation("C10", "launched-without-genesis", map[string]any{"consumer": id})
			}
			if o.ClientID == "" {
				w.Violation("C10", "launched-without-client", map[string]any{"consumer": id})
			}
			if o.ValSetLen == 0 {
				w.Violation("C10", "launched-with-empty-validator-set", map[string]any{"consumer": id})
			}
			// the initial set contains an active provider validator (a member of the provider's own consensus set, which
			// BeginBlock does not change)
			if rec, err := pk.GetLastProviderConsensusValSet(ctx); err == nil {
				active := map[string]bool{}
				for _, r := range rec {
					active[consHex(r.ProviderConsAddr)] = true
				}
				nAct := 0
				if vs, err := pk.GetConsumerValSet(ctx, id); err == nil {
					for _, v := range vs {
						if active[consHex(v.ProviderConsAddr)] {
							nAct++
						}
					}
					if nAct == 0 && len(vs) > 0 {
						w.Violation("C10", "launched-without-active-provider-validator", map[string]any{"consumer": id, "set_size": len(vs), "provider_set": len(rec)})
					}
					if nAct < len(vs) {
						w.Event("C10", "launches-with-inactive-members")
					}
				}
			}
			m.checkArtefacts(ctx, id, o)
		case phReg:
			w.Event("C10", "launch-failed")
			// classify: opted-in validators exist but none of them is active (the "contains an active validator" clause)
			if rec, err := pk.GetLastProviderConsensusValSet(ctx); err == nil {
				active := map[string]bool{}
				for _, r := range rec {
					active[consHex(r.ProviderConsAddr)] = true
				}
				opted, optedActive := 0, 0
				for _, a := range pk.GetAllOptedIn(ctx, id) {
					opted++
					if active[consHex(a.ToSdkConsAddr())] {
						optedActive++
					}
				}
				switch {
				case opted == 0:
					w.Case("C10", "launch-failed:nobody-opted-in")
				case optedActive == 0:
					w.Case("C10", "launch-failed:only-inactive-validators-opted-in")
					w.Event("C10", "launch-failed-only-inactive-opted-in")
				default:
					w.Case("C10", "launch-failed:other")
				}
			}
			if !o.Spawn.IsZero() {
				w.Violation("C10", "failed-launch-spawn-time-not-cleared", map[string]any{"consumer": id, "spawn": o.Spawn.String()})
			}
			if o.HasGen || o.ClientID != "" || o.ValSetLen != 0 {
				w.Violation("C10", "failed-launch-left-artefacts", map[string]any{"consumer": id, "genesis": o.HasGen, "client": o.ClientID, "valset": o.ValSetLen})
			}
			if o.HasMinPow != p.HasMinPow || o.MinPow != p.MinPow {
				w.Violation("C19", "failed-launch-changed-topn-threshold", map[string]any{"consumer": id, "before": p.MinPow, "after": o.MinPow})
			}
		default:
			w.Violation("C10", "due-consumer-not-processed", map[string]any{"consumer": id, "phase": o.Phase.String(), "spawn": p.Spawn.String(), "block_time": now.String()})
		}
	}
	for id, o := range obs {
		p := m.prev[id]
		if p.Phase == phInit && o.Phase != phInit && !isAttempted[id] {
			w.Violation("C10", "launch-processing-of-non-due-consumer", map[string]any{"consumer": id, "spawn": p.Spawn.String(), "block_time": now.String(), "phase": o.Phase.String()})
		}
	}
	_ = pk
}

func bucket(n int) string {
	switch {
	case n == 1:
		return "1"
	case n <= 5:
		return "2-5"
	case n <= 50:
		return "6-50"
	case n <= 200:
		return "51-200"
	default:
		return ">200"
	}
}

// checkArtefacts verifies the recorded genesis and light client of a freshly launched consumer.
func (m *monC10) checkArtefacts(ctx sdk.Context, id string, o cObs) {
	w := m.w
	pk := w.P.PApp.ProviderKeeper
	gen, ok := pk.GetConsumerGenesis(ctx, id)
	if !ok {
		return
	}
	vs, err := pk.GetConsumerValSet(ctx, id)
	if err != nil {
		return
	}
	want := map[string]int64{}
	for _, v := range vs {
		want[pkStr(*v.PublicKey)] = v.Power
	}
	got := map[string]int64{}
	for _, u := range gen.Provider.InitialValSet {
		got[u.PubKey.String()] = u.Power
	}
	if !sameSet(want, got) {
		w.Violation("C10", "genesis-initial-valset-differs-from-stored-set", map[string]any{"consumer": id, "genesis": setStr(got), "stored": setStr(want)})
	}
	ip, err := pk.GetConsumerInitializationParameters(ctx, id)
	if err != nil {
		return
	}
	if gen.Params.UnbondingPeriod != ip.UnbondingPeriod || gen.Params.CcvTimeoutPeriod != ip.CcvTimeoutPeriod ||
		gen.Params.BlocksPerDistributionTransmission != ip.BlocksPerDistributionTransmission ||
		gen.Params.ConsumerRedistributionFraction != ip.ConsumerRedistributionFraction ||
		gen.Params.TransferTimeoutPeriod != ip.TransferTimeoutPeriod || gen.Params.HistoricalEntries != ip.HistoricalEntries ||
		gen.Params.ConsumerId != id || !gen.Params.Enabled {
		w.Violation("C10", "genesis-params-differ-from-record", map[string]any{"consumer": id})
	}
	if ip.ConnectionId == "" {
		if gen.Provider.ClientState == nil || gen.Provider.ConsensusState == nil {
			w.Violation("C10", "genesis-without-provider-client", map[string]any{"consumer": id})
		} else {
			if gen.Provider.ClientState.ChainId != ctx.ChainID() {
				w.Violation("C10", "genesis-provider-client-wrong-chain", map[string]any{"consumer": id, "chain": gen.Provider.ClientState.ChainId})
			}
			if int64(gen.Provider.ClientState.LatestHeight.RevisionHeight) != ctx.BlockHeight() {
				w.Violation("C10", "genesis-provider-client-wrong-height", map[string]any{"consumer": id, "height": gen.Provider.ClientState.LatestHeight.RevisionHeight, "block": ctx.BlockHeight()})
			}
			if !gen.Provider.ConsensusState.Timestamp.Equal(ctx.BlockTime()) {
				w.Violation("C10", "genesis-provider-consensus-state-wrong-time", map[string]any{"consumer": id})
			}
		}
		// the consumer's light client on the provider
		cs, found := w.P.PApp.IBCKeeper.ClientKeeper.GetClientState(ctx, o.ClientID)
		if !found {
			w.Violation("C10", "recorded-client-does-not-exist", map[string]any{"consumer": id, "client": o.ClientID})
		} else if chainID, err := pk.GetConsumerChainId(ctx, id); err == nil {
			if tm, ok := cs.(interface{ GetChainID() string }); ok && tm.GetChainID() != chainID {
				w.Violation("C10", "client-chain-id-differs", map[string]any{"consumer": id, "client_chain": tm.GetChainID(), "chain": chainID})
			}
		}
	}
	w.Sample("C10", map[string]any{"launched": id, "height": ctx.BlockHeight(), "initial_valset": len(got), "client": o.ClientID})
}

func (m *monC10) PreEnd(ctx sdk.Context) {}

func (m *monC10) PostEnd(ctx sdk.Context) {
	w := m.w
	obs, n, q := m.observe(ctx)
	if m.seenFirst {
		if n < m.prevCount {
			w.Violation("C10", "id-counter-decreased", map[string]any{"before": m.prevCount, "after": n})
		}
		m.transitions(obs, txEdges, "txs")
	}
	m.standing(obs, q, "post-end")
	m.prev, m.prevCount, m.prevQueue, m.seenFirst = obs, n, q, true
}

func (m *monC10) AfterBlock(c *Chain, req *abci.RequestFinalizeBlock, res *abci.ResponseFinalizeBlock, txs []TxOutcome) {
	if !c.IsProvider {
		return
	}
	// ids are issued once, in increasing order: each successful creation reports the next id
	w := m.w
	for _, o := range txs {
		if !o.OK() {
			continue
		}
		for _, msg := range o.Spec.Msgs {
			if _, ok := msg.(*providertypes.MsgCreateConsumer); ok {
				id := eventAttr(o.Result.Events, providertypes.EventTypeCreateConsumer, providertypes.AttributeConsumerId)
				want := strconv.FormatUint(m.issued, 10)
				w.Eval("C10")
				if id != want {
					w.Violation("C10", "consumer-id-not-next-in-sequence", map[string]any{"issued": id, "expected": want})
				}
				m.issued++
			}
		}
	}
	if m.prevCount != m.issued {
		w.Violation("C10", "id-counter-differs-from-issued", map[string]any{"counter": m.prevCount, "issued": m.issued})
	}
}
