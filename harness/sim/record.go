package sim

import (
	abci "github.com/cometbft/cometbft/abci/types"
)

// ChainRecord is the byte-exact input history of one chain plus the digest of every response;
// the determinism replica (C18) re-executes it on fresh application instances.
type ChainRecord struct {
	ChainID        string                 `json:"chain_id"`
	Kind           string                 `json:"kind"` // provider | consumer
	Init           []byte                 `json:"init"`
	InitValidators []abci.ValidatorUpdate `json:"-"`
	InitDigest     string                 `json:"init_digest"`
	Reqs           [][]byte               `json:"reqs"`
	Digests        []string               `json:"digests"`
	Interesting    []bool                 `json:"interesting"`
}

func (r *ChainRecord) add(req *abci.RequestFinalizeBlock, res *abci.ResponseFinalizeBlock) {
	r.Reqs = append(r.Reqs, mustMarshal(req))
	r.Digests = append(r.Digests, DigestResponse(res))
	r.Interesting = append(r.Interesting, len(res.ValidatorUpdates) > 0 || len(req.Txs) > 0)
}
