package sim

import (
	"context"
	"crypto/sha256"
	"encoding/hex"
	"encoding/json"
	"fmt"
	"os"
	"strconv"
	"sync"
	"time"

	"cosmossdk.io/log"

	abci "github.com/cometbft/cometbft/abci/types"

	db "github.com/cosmos/cosmos-db"
	"github.com/cosmos/cosmos-sdk/baseapp"
	simtestutil "github.com/cosmos/cosmos-sdk/testutil/sims"

	appConsumer "github.com/cosmos/interchain-security/v7/app/consumer"
	appProvider "github.com/cosmos/interchain-security/v7/app/provider"
)

// BlockDigest holds digests of the parts of one FinalizeBlock response.
type BlockDigest struct {
	All     string `json:"all"`
	AppHash string `json:"app_hash"`
	ValUpd  string `json:"validator_updates"`
	TxRes   string `json:"tx_results"`
	Events  string `json:"events"`
}

// ChainRecord is the byte-exact input history of one chain plus the digest of every response;
// the determinism replica (C18) re-executes it on fresh application instances.
type ChainRecord struct {
	ChainID        string                 `json:"chain_id"`
	Kind           string                 `json:"kind"`    // provider | consumer
	Tainted        bool                   `json:"tainted"` // state was written outside ABCI (hostile injection): not replayable
	Init           []byte                 `json:"init"`
	InitValidators []abci.ValidatorUpdate `json:"-"`
	InitDigest     string                 `json:"init_digest"`
	Reqs           [][]byte               `json:"reqs"`
	Digests        []BlockDigest          `json:"digests"`
	Resps          [][]byte               `json:"resps"` // full responses, to explain a divergence
	Interesting    []bool                 `json:"interesting"`
}

func sha(bz []byte) string {
	h := sha256.Sum256(bz)
	return hex.EncodeToString(h[:])
}

// detTxResults strips the two free-text fields of a transaction result (Log, Info). They are outside consensus (CometBFT hashes
// Code, Data, GasWanted and GasUsed only) and are not among the results C18 lists; the SDK puts a goroutine stack trace with
// goroutine ids and memory addresses into Log when a message handler panics, so they differ between replicas by construction.
// Code, Codespace, Data, gas and all events are compared.
func detTxResults(in []*abci.ExecTxResult) []*abci.ExecTxResult {
	out := make([]*abci.ExecTxResult, len(in))
	for i, r := range in {
		c := *r
		c.Log, c.Info = "", ""
		out[i] = &c
	}
	return out
}

func digestBlock(res *abci.ResponseFinalizeBlock) BlockDigest {
	all := *res
	all.TxResults = detTxResults(res.TxResults)
	d := BlockDigest{All: sha(mustMarshal(&all)), AppHash: hex.EncodeToString(res.AppHash)}
	vu := &abci.ResponseFinalizeBlock{ValidatorUpdates: res.ValidatorUpdates}
	d.ValUpd = sha(mustMarshal(vu))
	d.TxRes = sha(mustMarshal(&abci.ResponseFinalizeBlock{TxResults: detTxResults(res.TxResults)}))
	ev := &abci.ResponseFinalizeBlock{Events: res.Events}
	d.Events = sha(mustMarshal(ev))
	return d
}

func (r *ChainRecord) add(req *abci.RequestFinalizeBlock, res *abci.ResponseFinalizeBlock) {
	r.Reqs = append(r.Reqs, mustMarshal(req))
	r.Digests = append(r.Digests, digestBlock(res))
	r.Resps = append(r.Resps, mustMarshal(res))
	ibc := false
	for _, ev := range res.Events {
		if ev.Type == "send_packet" || ev.Type == "write_acknowledgement" {
			ibc = true
		}
	}
	for _, tr := range res.TxResults {
		for _, ev := range tr.Events {
			if ev.Type == "send_packet" || ev.Type == "write_acknowledgement" || ev.Type == "recv_packet" {
				ibc = true
			}
		}
	}
	r.Interesting = append(r.Interesting, len(res.ValidatorUpdates) > 0 || ibc)
}

// WorldRecord bundles the records of all chains of a world.
type WorldRecord struct {
	World  string         `json:"world"`
	Chains []*ChainRecord `json:"chains"`
}

func (w *World) WriteRecord(path string) error {
	wr := WorldRecord{World: w.Name}
	if w.P != nil && w.P.Rec != nil {
		wr.Chains = append(wr.Chains, w.P.Rec)
	}
	for _, id := range w.ConsOrder {
		if c := w.Consumers[id]; c != nil && c.Rec != nil {
			wr.Chains = append(wr.Chains, c.Rec)
		}
	}
	bz, err := json.Marshal(wr)
	if err != nil {
		return err
	}
	return os.WriteFile(path, bz, 0o644)
}

// application constructors register global state (codecs, bech32 config); a real process builds one app
var appCtorMu sync.Mutex

// ReplicaDiff describes the first divergence of a replica.
type ReplicaDiff struct {
	Chain  string `json:"chain"`
	Block  int    `json:"block"` // -1 = InitChain
	Fields string `json:"fields"`
	Detail string `json:"detail,omitempty"`
}

// explainDiff locates the first differing element between the recorded and the replica's response.
func explainDiff(orig []byte, got *abci.ResponseFinalizeBlock) string {
	var o abci.ResponseFinalizeBlock
	if len(orig) == 0 || o.Unmarshal(orig) != nil {
		return ""
	}
	evDiff := func(where string, a, b []abci.Event) string {
		if len(a) != len(b) {
			return fmt.Sprintf("%s: %d events recorded, %d on the replica", where, len(a), len(b))
		}
		for i := range a {
			if sha(mustMarshal(&abci.ResponseFinalizeBlock{Events: a[i : i+1]})) != sha(mustMarshal(&abci.ResponseFinalizeBlock{Events: b[i : i+1]})) {
				return fmt.Sprintf("%s: event %d differs: recorded=%v replica=%v", where, i, a[i], b[i])
			}
		}
		return ""
	}
	if len(o.TxResults) != len(got.TxResults) {
		return fmt.Sprintf("%d tx results recorded, %d on the replica", len(o.TxResults), len(got.TxResults))
	}
	for i := range o.TxResults {
		a, b := o.TxResults[i], got.TxResults[i]
		switch {
		case a.Code != b.Code || a.Codespace != b.Codespace:
			return fmt.Sprintf("tx %d: code %s/%d recorded, %s/%d on the replica (logs %q / %q)", i, a.Codespace, a.Code, b.Codespace, b.Code, a.Log, b.Log)
		case a.GasUsed != b.GasUsed || a.GasWanted != b.GasWanted:
			return fmt.Sprintf("tx %d: gas used %d recorded, %d on the replica", i, a.GasUsed, b.GasUsed)
		case string(a.Data) != string(b.Data):
			return fmt.Sprintf("tx %d: data differs", i)
		}
		if d := evDiff(fmt.Sprintf("tx %d", i), a.Events, b.Events); d != "" {
			return d
		}
	}
	if d := evDiff("block", o.Events, got.Events); d != "" {
		return d
	}
	if len(o.ValidatorUpdates) != len(got.ValidatorUpdates) {
		return fmt.Sprintf("%d validator updates recorded, %d on the replica", len(o.ValidatorUpdates), len(got.ValidatorUpdates))
	}
	for i := range o.ValidatorUpdates {
		if o.ValidatorUpdates[i].String() != got.ValidatorUpdates[i].String() {
			return fmt.Sprintf("validator update %d: recorded=%v replica=%v", i, o.ValidatorUpdates[i], got.ValidatorUpdates[i])
		}
	}
	return ""
}

// ReplayRecord re-executes a chain record on a fresh application instance (no probes, no decorated keepers)
// and returns the first block whose response differs from the recorded one.
func ReplayRecord(rec *ChainRecord, withQueries bool) (*ReplicaDiff, int, error) {
	// race-detector processes replay a bounded prefix (the detector costs an order of magnitude)
	maxBlocks, _ := strconv.Atoi(os.Getenv("VERIF_REPLICA_MAXBLOCKS"))
	var app interface {
		InitChain(*abci.RequestInitChain) (*abci.ResponseInitChain, error)
		FinalizeBlock(*abci.RequestFinalizeBlock) (*abci.ResponseFinalizeBlock, error)
		Commit() (*abci.ResponseCommit, error)
		Query(context.Context, *abci.RequestQuery) (*abci.ResponseQuery, error)
	}
	appCtorMu.Lock()
	switch rec.Kind {
	case "provider":
		a := appProvider.New(log.NewNopLogger(), db.NewMemDB(), nil, true, simtestutil.EmptyAppOptions{})
		baseapp.SetChainID(rec.ChainID)(a.GetBaseApp())
		app = a
	case "consumer":
		a := appConsumer.New(log.NewNopLogger(), db.NewMemDB(), nil, true, simtestutil.EmptyAppOptions{})
		baseapp.SetChainID(rec.ChainID)(a.GetBaseApp())
		app = a
	default:
		appCtorMu.Unlock()
		return nil, 0, fmt.Errorf("unknown chain kind %q", rec.Kind)
	}
	appCtorMu.Unlock()
	var init abci.RequestInitChain
	if err := init.Unmarshal(rec.Init); err != nil {
		return nil, 0, err
	}
	ires, err := app.InitChain(&init)
	if err != nil {
		return nil, 0, fmt.Errorf("replica InitChain: %w", err)
	}
	if d := sha(mustMarshal(ires)); d != rec.InitDigest {
		return &ReplicaDiff{Chain: rec.ChainID, Block: -1, Fields: "init-chain-response"}, 0, nil
	}
	n := 0
	// concurrent gRPC queries against committed state, as a real node serves them while executing blocks
	stop := make(chan struct{})
	var qwg sync.WaitGroup
	queries := 0
	if withQueries {
		paths := []string{"/interchain_security.ccv.provider.v1.Query/QueryConsumerChains", "/interchain_security.ccv.provider.v1.Query/QueryThrottleState",
			"/interchain_security.ccv.provider.v1.Query/QueryParams", "/interchain_security.ccv.consumer.v1.Query/QueryParams"}
		qwg.Add(1)
		go func() {
			defer qwg.Done()
			for {
				select {
				case <-stop:
					return
				default:
				}
				for _, p := range paths {
					func() {
						defer func() { _ = recover() }()
						_, _ = app.Query(context.Background(), &abci.RequestQuery{Path: p})
					}()
					queries++
				}
				time.Sleep(time.Millisecond)
			}
		}()
	}
	defer func() {
		close(stop)
		qwg.Wait()
	}()
	for i, rb := range rec.Reqs {
		if maxBlocks > 0 && i >= maxBlocks {
			break
		}
		var req abci.RequestFinalizeBlock
		if err := req.Unmarshal(rb); err != nil {
			return nil, n, err
		}
		res, err := app.FinalizeBlock(&req)
		if err != nil {
			return &ReplicaDiff{Chain: rec.ChainID, Block: i, Fields: "finalize-block-error: " + err.Error()}, n, nil
		}
		d := digestBlock(res)
		if d != rec.Digests[i] {
			f := ""
			if d.AppHash != rec.Digests[i].AppHash {
				f += "app_hash "
			}
			if d.ValUpd != rec.Digests[i].ValUpd {
				f += "validator_updates "
			}
			if d.TxRes != rec.Digests[i].TxRes {
				f += "tx_results "
			}
			if d.Events != rec.Digests[i].Events {
				f += "events "
			}
			if f == "" {
				f = "other-response-fields"
			}
			det := ""
			if i < len(rec.Resps) {
				det = explainDiff(rec.Resps[i], res)
			}
			return &ReplicaDiff{Chain: rec.ChainID, Block: i, Fields: f, Detail: det}, n, nil
		}
		if _, err := app.Commit(); err != nil {
			return nil, n, err
		}
		n++
	}
	return nil, n, nil
}
