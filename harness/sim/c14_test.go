package sim

import (
	"fmt"
	"os"
	"strconv"
	"testing"
	"time"

	"cosmossdk.io/math"
	storetypes "cosmossdk.io/store/types"

	sdk "github.com/cosmos/cosmos-sdk/types"
	banktypes "github.com/cosmos/cosmos-sdk/x/bank/types"
	distrtypes "github.com/cosmos/cosmos-sdk/x/distribution/types"
	govv1 "github.com/cosmos/cosmos-sdk/x/gov/types/v1"
	slashingtypes "github.com/cosmos/cosmos-sdk/x/slashing/types"
	stakingtypes "github.com/cosmos/cosmos-sdk/x/staking/types"

	providertypes "github.com/cosmos/interchain-security/v7/x/ccv/provider/types"
)

// multiSnap snapshots the stores in which a rejected provider message must not leave a trace.
func (w *World) multiSnap() map[string]StoreSnap {
	ctx := w.P.Ctx()
	out := map[string]StoreSnap{}
	for _, name := range []string{providertypes.StoreKey, stakingtypes.StoreKey, slashingtypes.StoreKey, distrtypes.StoreKey, banktypes.StoreKey} {
		var k storetypes.StoreKey = w.P.PApp.GetKey(name)
		out[name] = snapStore(ctx, k)
	}
	return out
}

type c14cell struct {
	name   string
	spec   TxSpec
	accept bool
	// onlyValidator: when accepted, per-validator keys of the provider store may only concern this validator
	onlyValidator *Val
	consumer      string
}

// TestC14Matrix drives the (message type x sender role x phase) matrix with real signed transactions, each alone in its block.
func TestC14Matrix(t *testing.T) {
	if os.Getenv("VERIF_DIRECTED") == "" {
		t.Skip("directed test; run through ./check")
	}
	start := time.Now()
	seed, _ := strconv.ParseInt(os.Getenv("VERIF_SEED"), 10, 64)
	tier := os.Getenv("VERIF_TIER")
	rounds := 1
	if tier == "thorough" {
		rounds = 6
	}
	var last *World
	fatal := ""
	for round := 0; round < rounds && fatal == ""; round++ {
		cfg := MakeConfig("lifecycle", tier, seed, 1000+round)
		cfg.LiveConsumers = 0
		cfg.Profile = "authz"
		w := NewWorld(t, fmt.Sprintf("c14-matrix-%s-%d-%d", tier, seed, round), cfg)
		if last != nil {
			w.stats = last.stats
			w.violations = last.violations
			w.vioSeen = last.vioSeen
		}
		last = w
		func() {
			defer func() {
				if r := recover(); r != nil {
					fatal = fmt.Sprintf("harness panic: %v", r)
				}
			}()
			runC14Round(w)
		}()
	}
	last.Finish(os.Getenv("VERIF_OUT"), start, fatal)
}

func (w *World) soloOK(spec TxSpec) TxOutcome {
	w.Tick()
	outs := w.ProviderStep([]TxSpec{spec}, true, nil)
	if len(outs) != 1 {
		panic("soloOK: no outcome")
	}
	if !outs[0].OK() {
		panic(fmt.Sprintf("setup tx failed (%s): %s", spec.Tag, logOf(outs[0])))
	}
	w.syncShadow()
	return outs[0]
}

func (w *World) createC(owner *Account, chain string, spawn time.Time) string {
	o := w.soloOK(TxSpec{Signer: owner, Msgs: []sdk.Msg{MsgCreateConsumer(owner, chain, DefaultInitParams(spawn, w.Cfg.ConsumerUnbonding), nil, nil)}, Tag: "create-consumer"})
	return eventAttr(o.Result.Events, providertypes.EventTypeCreateConsumer, providertypes.AttributeConsumerId)
}

func runC14Round(w *World) {
	pr := w.AttachMonitors()
	w.Init(pr)
	owner0, owner1, stranger := w.Accts["owner0"], w.Accts["owner1"], w.Accts["stranger"]
	gov := GovAddr()
	v0, v1 := w.Vals[0], w.Vals[1]

	// ---- consumers in all phases
	cReg := w.createC(owner0, "areg", time.Time{})
	cInit := w.createC(owner0, "ainit", w.Now.Add(100*time.Hour))
	cLaunch := w.createC(owner0, "alaunch", w.Now.Add(30*time.Second))
	cStop := w.createC(owner0, "astop", w.Now.Add(30*time.Second))
	cTop := w.createC(owner0, "atop", w.Now.Add(30*time.Second))
	cPrev := w.createC(owner1, "aprev", time.Time{}) // will be transferred owner1 -> owner0: owner1 is the previous owner
	var specs []TxSpec
	for _, id := range []string{cLaunch, cStop, cTop} {
		for _, v := range w.createdVals() {
			specs = append(specs, TxSpec{Signer: v.Oper, Msgs: []sdk.Msg{MsgOptIn(v, id, nil)}, Tag: "opt-in"})
		}
	}
	w.Tick()
	w.ProviderStep(specs, false, nil)
	w.soloOK(TxSpec{Signer: owner1, Msgs: []sdk.Msg{&providertypes.MsgUpdateConsumer{Owner: owner1.Addr.String(), ConsumerId: cPrev, NewOwnerAddress: owner0.Addr.String()}}, Tag: "update-consumer:owner"})
	for i := 0; i < 8; i++ {
		w.Tick()
		w.ProviderStep(nil, false, nil)
	}
	for _, id := range []string{cLaunch, cStop, cTop} {
		if w.Phase(id) != phLaunch {
			panic("setup: consumer " + id + " did not launch: " + w.Phase(id).String())
		}
	}
	w.soloOK(TxSpec{Signer: owner0, Msgs: []sdk.Msg{&providertypes.MsgRemoveConsumer{ConsumerId: cStop, Owner: owner0.Addr.String()}}, Tag: "remove-consumer"})
	// cTop: ownership to gov, then Top-N by proposal
	w.soloOK(TxSpec{Signer: owner0, Msgs: []sdk.Msg{&providertypes.MsgUpdateConsumer{Owner: owner0.Addr.String(), ConsumerId: cTop, NewOwnerAddress: gov}}, Tag: "update-consumer:owner->gov"})
	psTop, _ := w.P.PApp.ProviderKeeper.GetConsumerPowerShapingParameters(w.P.Ctx(), cTop)
	psTop.Top_N = 67
	if !w.runProposal(&providertypes.MsgUpdateConsumer{Owner: gov, ConsumerId: cTop, PowerShapingParameters: &psTop}) {
		panic("setup: top-N proposal did not pass")
	}

	md := func(s string) *providertypes.ConsumerMetadata { m := Metadata(s); return &m }
	upd := func(signer *Account, ownerField, id string) TxSpec {
		return TxSpec{Signer: signer, Msgs: []sdk.Msg{&providertypes.MsgUpdateConsumer{Owner: ownerField, ConsumerId: id, Metadata: md("x" + signer.Name)}}, Tag: "update-consumer"}
	}
	var cells []c14cell
	add := func(name string, spec TxSpec, accept bool, only *Val, consumer string) {
		cells = append(cells, c14cell{name: name, spec: spec, accept: accept, onlyValidator: only, consumer: consumer})
	}
	phases := map[string]string{"registered": cReg, "initialized": cInit, "launched": cLaunch, "stopped": cStop}
	for ph, id := range phases {
		active := ph != "stopped"
		add("update/owner/"+ph, upd(owner0, owner0.Addr.String(), id), active, nil, id)
		add("update/stranger/"+ph, upd(stranger, stranger.Addr.String(), id), false, nil, id)
		add("update/forged-owner-field/"+ph, upd(stranger, owner0.Addr.String(), id), false, nil, id)
		add("update/operator/"+ph, upd(v0.Oper, v0.Oper.Addr.String(), id), false, nil, id)
		add("remove/stranger/"+ph, TxSpec{Signer: stranger, Msgs: []sdk.Msg{&providertypes.MsgRemoveConsumer{ConsumerId: id, Owner: stranger.Addr.String()}}, Tag: "remove-consumer"}, false, nil, id)
		add("remove/forged/"+ph, TxSpec{Signer: stranger, Msgs: []sdk.Msg{&providertypes.MsgRemoveConsumer{ConsumerId: id, Owner: owner0.Addr.String()}}, Tag: "remove-consumer"}, false, nil, id)
		// Top-N requests by a private owner
		ps := providertypes.PowerShapingParameters{Top_N: 60}
		add("update/owner-sets-topn/"+ph, TxSpec{Signer: owner0, Msgs: []sdk.Msg{&providertypes.MsgUpdateConsumer{Owner: owner0.Addr.String(), ConsumerId: id, PowerShapingParameters: &ps}}, Tag: "update-consumer"}, false, nil, id)
		add("update/owner-to-gov-and-topn-in-one/"+ph, TxSpec{Signer: owner0, Msgs: []sdk.Msg{&providertypes.MsgUpdateConsumer{Owner: owner0.Addr.String(), ConsumerId: id, NewOwnerAddress: gov, PowerShapingParameters: &ps}}, Tag: "update-consumer"}, false, nil, id)
		for _, bad := range []uint32{1, 49, 101, 1000} {
			psb := providertypes.PowerShapingParameters{Top_N: bad}
			add(fmt.Sprintf("update/owner-topn-out-of-range-%d/%s", bad, ph), TxSpec{Signer: owner0, Msgs: []sdk.Msg{&providertypes.MsgUpdateConsumer{Owner: owner0.Addr.String(), ConsumerId: id, PowerShapingParameters: &psb}}, Tag: "update-consumer"}, false, nil, id)
		}
		// validator messages
		k := w.KeyPool[len(cells)%len(w.KeyPool)]
		add("opt-in/operator/"+ph, TxSpec{Signer: v0.Oper, Msgs: []sdk.Msg{MsgOptIn(v0, id, nil)}, Tag: "opt-in"}, active, v0, id)
		add("opt-in/other-operator/"+ph, TxSpec{Signer: v1.Oper, Msgs: []sdk.Msg{&providertypes.MsgOptIn{ConsumerId: id, ProviderAddr: v0.ValAddr.String(), Signer: v1.Oper.Addr.String()}}, Tag: "opt-in"}, false, nil, id)
		add("opt-in/forged-signer-field/"+ph, TxSpec{Signer: stranger, Msgs: []sdk.Msg{&providertypes.MsgOptIn{ConsumerId: id, ProviderAddr: v0.ValAddr.String(), Signer: v0.Oper.Addr.String()}}, Tag: "opt-in"}, false, nil, id)
		add("assign-key/operator/"+ph, TxSpec{Signer: v0.Oper, Msgs: []sdk.Msg{MsgAssignKey(v0, id, k)}, Tag: "assign-key"}, active, v0, id)
		// a validator that already holds an assigned key on this consumer tries to take the provider consensus key of another
		// validator (who uses it, by default, as its key on this consumer)
		add("assign-key/operator-takes-another-validators-provider-key/"+ph, TxSpec{Signer: v0.Oper, Msgs: []sdk.Msg{MsgAssignKey(v0, id, v1.Key)}, Tag: "assign-key"}, false, nil, id)
		add("assign-key/other-operator/"+ph, TxSpec{Signer: v1.Oper, Msgs: []sdk.Msg{&providertypes.MsgAssignConsumerKey{ConsumerId: id, ProviderAddr: v0.ValAddr.String(), ConsumerKey: w.KeyPool[(len(cells)+1)%len(w.KeyPool)].SDKPubKeyJSON(), Signer: v1.Oper.Addr.String()}}, Tag: "assign-key"}, false, nil, id)
		add("assign-key/stranger-forged/"+ph, TxSpec{Signer: stranger, Msgs: []sdk.Msg{&providertypes.MsgAssignConsumerKey{ConsumerId: id, ProviderAddr: v0.ValAddr.String(), ConsumerKey: w.KeyPool[(len(cells)+2)%len(w.KeyPool)].SDKPubKeyJSON(), Signer: v0.Oper.Addr.String()}}, Tag: "assign-key"}, false, nil, id)
		add("commission/operator/"+ph, TxSpec{Signer: v0.Oper, Msgs: []sdk.Msg{MsgCommission(v0, id, math.LegacyNewDecWithPrec(33, 2))}, Tag: "commission"}, active, v0, id)
		add("commission/other-operator/"+ph, TxSpec{Signer: v1.Oper, Msgs: []sdk.Msg{&providertypes.MsgSetConsumerCommissionRate{ConsumerId: id, ProviderAddr: v0.ValAddr.String(), Rate: math.LegacyNewDecWithPrec(5, 1), Signer: v1.Oper.Addr.String()}}, Tag: "commission"}, false, nil, id)
		add("opt-out/other-operator/"+ph, TxSpec{Signer: v1.Oper, Msgs: []sdk.Msg{&providertypes.MsgOptOut{ConsumerId: id, ProviderAddr: v0.ValAddr.String(), Signer: v1.Oper.Addr.String()}}, Tag: "opt-out"}, false, nil, id)
		add("opt-out/operator/"+ph, TxSpec{Signer: v0.Oper, Msgs: []sdk.Msg{MsgOptOut(v0, id)}, Tag: "opt-out"}, ph == "launched", v0, id)
	}
	// previous owner
	add("update/previous-owner", upd(owner1, owner1.Addr.String(), cPrev), false, nil, cPrev)
	add("update/new-owner", upd(owner0, owner0.Addr.String(), cPrev), true, nil, cPrev)
	add("remove/previous-owner", TxSpec{Signer: owner1, Msgs: []sdk.Msg{&providertypes.MsgRemoveConsumer{ConsumerId: cLaunch, Owner: owner1.Addr.String()}}, Tag: "remove-consumer"}, false, nil, cLaunch)
	// gov-owned Top-N consumer: nobody but governance
	add("update/old-owner-on-gov-owned", upd(owner0, owner0.Addr.String(), cTop), false, nil, cTop)
	add("update/forged-gov-owner-field", upd(stranger, gov, cTop), false, nil, cTop)
	add("remove/old-owner-on-gov-owned", TxSpec{Signer: owner0, Msgs: []sdk.Msg{&providertypes.MsgRemoveConsumer{ConsumerId: cTop, Owner: owner0.Addr.String()}}, Tag: "remove-consumer"}, false, nil, cTop)
	// creation
	psT := providertypes.PowerShapingParameters{Top_N: 50}
	add("create/topn-by-user", TxSpec{Signer: stranger, Msgs: []sdk.Msg{MsgCreateConsumer(stranger, "atopx", nil, &psT, nil)}, Tag: "create-consumer"}, false, nil, "")
	add("create/optin-by-user", TxSpec{Signer: stranger, Msgs: []sdk.Msg{MsgCreateConsumer(stranger, "aopt", DefaultInitParams(time.Time{}, w.Cfg.ConsumerUnbonding), nil, nil)}, Tag: "create-consumer"}, true, nil, "")
	// provider parameters and reward denoms
	params := w.P.PApp.ProviderKeeper.GetParams(w.P.Ctx())
	params.BlocksPerEpoch = 7
	add("params/stranger-as-authority", TxSpec{Signer: stranger, Msgs: []sdk.Msg{&providertypes.MsgUpdateParams{Authority: stranger.Addr.String(), Params: params}}, Tag: "params"}, false, nil, "")
	add("params/forged-gov-authority", TxSpec{Signer: stranger, Msgs: []sdk.Msg{&providertypes.MsgUpdateParams{Authority: gov, Params: params}}, Tag: "params"}, false, nil, "")
	add("denoms/stranger-as-authority", TxSpec{Signer: stranger, Msgs: []sdk.Msg{&providertypes.MsgChangeRewardDenoms{DenomsToAdd: []string{"ibc/ABCD"}, Authority: stranger.Addr.String()}}, Tag: "denoms"}, false, nil, "")
	add("denoms/forged-gov-authority", TxSpec{Signer: owner0, Msgs: []sdk.Msg{&providertypes.MsgChangeRewardDenoms{DenomsToAdd: []string{"ibc/ABCD"}, Authority: gov}}, Tag: "denoms"}, false, nil, "")
	// the owner finally removes its launched consumer
	add("remove/owner/launched", TxSpec{Signer: owner0, Msgs: []sdk.Msg{&providertypes.MsgRemoveConsumer{ConsumerId: cLaunch, Owner: owner0.Addr.String()}}, Tag: "remove-consumer"}, true, nil, cLaunch)

	order := w.Rnd.Perm(len(cells) - 1)
	order = append(order, len(cells)-1)
	for _, i := range order {
		w.runC14Cell(cells[i])
	}

	// ---- governance paths (legit authority)
	p2 := w.P.PApp.ProviderKeeper.GetParams(w.P.Ctx())
	p2.BlocksPerEpoch = p2.BlocksPerEpoch + 1
	w.Eval("C14")
	if !w.runProposal(&providertypes.MsgUpdateParams{Authority: gov, Params: p2}) || w.P.PApp.ProviderKeeper.GetBlocksPerEpoch(w.P.Ctx()) != p2.BlocksPerEpoch {
		w.Violation("C14", "governance-could-not-change-params", nil)
	}
	w.Case("C14", "params/governance")
	w.Eval("C14")
	if !w.runProposal(&providertypes.MsgChangeRewardDenoms{DenomsToAdd: []string{"ibc/ABCD"}, Authority: gov}) || !w.P.PApp.ProviderKeeper.ConsumerRewardDenomExists(w.P.Ctx(), "ibc/ABCD") {
		w.Violation("C14", "governance-could-not-change-reward-denoms", nil)
	}
	w.Case("C14", "denoms/governance")
	// governance hands a Top-N consumer to a private owner while it stays Top-N: must fail and change nothing
	before := w.multiSnap()[providertypes.StoreKey]
	w.Eval("C14")
	passed := w.runProposal(&providertypes.MsgUpdateConsumer{Owner: gov, ConsumerId: cTop, NewOwnerAddress: stranger.Addr.String()})
	o, _ := w.P.PApp.ProviderKeeper.GetConsumerOwnerAddress(w.P.Ctx(), cTop)
	if passed || o != gov {
		w.Violation("C14", "topn-consumer-handed-to-private-owner", map[string]any{"owner": o, "proposal_passed": passed})
	}
	for _, ch := range diffSnap(before, w.multiSnap()[providertypes.StoreKey]) {
		if ko := ownerOfKey(ch.Key, ch.New); ko.owner == cTop {
			w.Violation("C14", "failed-proposal-changed-consumer-state", map[string]any{"prefix": ko.prefix})
		}
	}
	w.Case("C14", "update/governance-new-owner-stranger-while-topn")
	// governance converts it to opt-in and hands it over in one message: allowed
	psO := psTop
	psO.Top_N = 0
	w.Eval("C14")
	if !w.runProposal(&providertypes.MsgUpdateConsumer{Owner: gov, ConsumerId: cTop, NewOwnerAddress: owner1.Addr.String(), PowerShapingParameters: &psO}) {
		w.Violation("C14", "governance-could-not-convert-to-optin-and-transfer", nil)
	}
	w.Case("C14", "update/governance-to-optin-and-new-owner")
	for i := 0; i < 3; i++ {
		w.Tick()
		w.ProviderStep(nil, false, nil)
	}
	w.FinalChecks()
}

// runProposal submits a proposal with yes votes, waits for the voting period and reports whether it passed.
func (w *World) runProposal(msgs ...sdk.Msg) bool {
	w.propsThisStep = 0
	op := w.withVotes(one("gov", w.Accts["faucet"], GovProposal(w.Accts["faucet"], msgs...)))
	next, _ := w.P.PApp.GovKeeper.ProposalID.Peek(w.P.Ctx())
	w.Tick()
	w.ProviderStep(op.Specs, false, nil)
	w.AdvanceTime(w.Cfg.VotingPeriod + time.Second)
	w.ProviderStep(nil, false, nil)
	w.Tick()
	w.ProviderStep(nil, false, nil)
	w.syncShadow()
	p, err := w.P.PApp.GovKeeper.Proposals.Get(w.P.Ctx(), next)
	if err != nil {
		w.Infof("proposal %d not found: %v", next, err)
		return false
	}
	if p.Status != govv1.StatusPassed {
		w.Infof("proposal %d status %s: %s", next, p.Status, p.FailedReason)
	}
	return p.Status == govv1.StatusPassed
}

func (w *World) runC14Cell(c c14cell) {
	ownerBefore := ""
	if c.consumer != "" {
		ownerBefore, _ = w.P.PApp.ProviderKeeper.GetConsumerOwnerAddress(w.P.Ctx(), c.consumer)
	}
	w.Tick()
	outs := w.ProviderStep([]TxSpec{c.spec}, true, nil)
	w.syncShadow()
	w.Eval("C14")
	w.Event("C14", "matrix-cells")
	w.Case("C14", c.name)
	ok := len(outs) == 1 && outs[0].OK()
	lg := "<not included>"
	if len(outs) == 1 {
		lg = logOf(outs[0])
	}
	if len(cellsSampled(w)) < 4 {
		w.Sample("C14", map[string]any{"cell": c.name, "expected_accept": c.accept, "accepted": ok, "log": lg})
	}
	if ok != c.accept {
		w.Violation("C14", "authorization-outcome:"+c.name, map[string]any{"expected_accept": c.accept, "accepted": ok, "log": lg})
	}
	// transaction-level effect on the provider store: state after BeginBlock vs state before EndBlock
	var txChanges []KeyChange
	for _, m := range w.Mons {
		if m13, ok := m.(*monC13); ok && m13.begin != nil && m13.preEnd != nil {
			txChanges = diffSnap(m13.begin, m13.preEnd)
		}
	}
	if !ok {
		w.Event("C14", "rejections-checked-for-no-effect")
		for _, ch := range txChanges {
			ko := ownerOfKey(ch.Key, firstNonNil(ch.New, ch.Old))
			w.Violation("C14", "rejected-message-changed-state:"+c.name, map[string]any{"prefix": ko.prefix, "owner": ko.owner})
		}
	} else if c.onlyValidator != nil {
		// accepted validator message: per-validator keys may only concern the signer's validator
		own := consHex(c.onlyValidator.ConsAddr())
		for _, ch := range txChanges {
			ko := ownerOfKey(ch.Key, firstNonNil(ch.New, ch.Old))
			if ko.class != klLenPref {
				continue
			}
			suffix := ch.Key[9+len(ko.owner):]
			switch ko.prefix {
			case 22, 32, 39: // keyed by provider consensus address
				if consHex(suffix) != own {
					w.Violation("C14", "validator-message-affected-other-validator:"+c.name, map[string]any{"prefix": ko.prefix, "validator": w.valNameHex(consHex(suffix))})
				}
			case 23: // consumer address -> provider address (value)
				v := firstNonNil(ch.New, ch.Old)
				if consHex(v) != own {
					w.Violation("C14", "validator-message-affected-other-validator:"+c.name, map[string]any{"prefix": ko.prefix, "validator": w.valNameHex(consHex(v))})
				}
			}
		}
	}
	if c.consumer != "" {
		ownerAfter, _ := w.P.PApp.ProviderKeeper.GetConsumerOwnerAddress(w.P.Ctx(), c.consumer)
		if ownerAfter != ownerBefore {
			w.Violation("C14", "ownership-changed-without-owner-transfer:"+c.name, map[string]any{"before": ownerBefore, "after": ownerAfter})
		}
	}
}

func cellsSampled(w *World) []any { return w.st("C14").Samples }

func firstNonNil(a, b []byte) []byte {
	if a != nil {
		return a
	}
	return b
}
