package sim

import (
	"encoding/json"
	"fmt"
	"os"
	"os/exec"
	"path/filepath"
	"strconv"
	"strings"
	"sync"
	"testing"
	"time"
)

// TestReplicaChild re-executes the records of one world in this (fresh) process and prints the outcome as JSON.
func TestReplicaChild(t *testing.T) {
	path := os.Getenv("VERIF_REC")
	if path == "" {
		t.Skip("VERIF_REC not set")
	}
	bz, err := os.ReadFile(path)
	if err != nil {
		t.Fatal(err)
	}
	var wr WorldRecord
	if err := json.Unmarshal(bz, &wr); err != nil {
		t.Fatal(err)
	}
	conc, _ := strconv.Atoi(os.Getenv("VERIF_REPLICAS"))
	if conc < 1 {
		conc = 1
	}
	out := replayAll(&wr, conc)
	ob, _ := json.Marshal(out)
	if err := os.WriteFile(os.Getenv("VERIF_REPLICA_OUT"), ob, 0o644); err != nil {
		t.Fatal(err)
	}
}

type replicaOutcome struct {
	Blocks int           `json:"blocks"`
	Diffs  []ReplicaDiff `json:"diffs"`
	Errors []string      `json:"errors"`
}

// replayAll replays every replayable chain record `conc` times concurrently.
func replayAll(wr *WorldRecord, conc int) replicaOutcome {
	var mu sync.Mutex
	var out replicaOutcome
	var wg sync.WaitGroup
	for _, rec := range wr.Chains {
		if rec.Tainted {
			continue
		}
		for r := 0; r < conc; r++ {
			wg.Add(1)
			go func(rec *ChainRecord) {
				defer wg.Done()
				d, n, err := ReplayRecord(rec, os.Getenv("VERIF_REPLICA_QUERIES") != "")
				mu.Lock()
				defer mu.Unlock()
				out.Blocks += n
				if err != nil {
					out.Errors = append(out.Errors, rec.ChainID+": "+err.Error())
				}
				if d != nil {
					out.Diffs = append(out.Diffs, *d)
				}
			}(rec)
		}
	}
	wg.Wait()
	return out
}

// TestC18Replicas: record worlds of several profiles, then re-execute every chain on independent replicas -
// in this process and in separate processes - and compare every FinalizeBlock response digest.
func TestC18Replicas(t *testing.T) {
	if os.Getenv("VERIF_DIRECTED") == "" {
		t.Skip("directed test; run through ./check")
	}
	start := time.Now()
	seed, _ := strconv.ParseInt(os.Getenv("VERIF_SEED"), 10, 64)
	tier := os.Getenv("VERIF_TIER")
	outdir := os.Getenv("VERIF_OUTDIR")
	bin := os.Getenv("VERIF_BIN")
	profiles := []string{"valset", "slash", "lifecycle", "rewards", "keys"}
	perProfile, childProcs := 1, 1
	if tier == "thorough" {
		perProfile, childProcs = 6, 2
	}
	agg := NewWorld(t, fmt.Sprintf("c18-replicas-%s-%d", tier, seed), Config{Seed: seed, Profile: "replica", Tier: tier})
	fatal := ""
	type job struct {
		profile string
		idx     int
	}
	var jobs []job
	for _, p := range profiles {
		for i := 0; i < perProfile; i++ {
			idx := 200 + i
			if p == "slash" {
				idx = 201 + i // odd indexes have a malicious consumer: the provider receives packets it rejects with error acknowledgements
			}
			jobs = append(jobs, job{p, idx})
		}
	}
	var mu sync.Mutex
	var wg sync.WaitGroup
	sem := make(chan struct{}, 6)
	for _, j := range jobs {
		wg.Add(1)
		go func(j job) {
			defer wg.Done()
			sem <- struct{}{}
			defer func() { <-sem }()
			name := fmt.Sprintf("%s-%s-%d-%d", j.profile, tier, seed, j.idx)
			recPath := fmt.Sprintf("%s/rec-%s.json", outdir, name)
			resPath := fmt.Sprintf("%s/recworld-%s.json", outdir, name)
			// the recorded run itself happens in a child process (a world is single-threaded and owns global SDK config)
			cmd := exec.Command(bin, "-test.run", "TestWorld$", "-test.timeout", "0")
			cmd.Env = append(os.Environ(), "VERIF_PROFILE="+j.profile, fmt.Sprintf("VERIF_INDEX=%d", j.idx), "VERIF_OUT="+resPath, "VERIF_RECORD="+recPath, "VERIF_DIRECTED=")
			if outb, err := cmd.CombinedOutput(); err != nil {
				mu.Lock()
				fatal += fmt.Sprintf("recording world %s failed: %v %s\n", name, err, tail(outb))
				mu.Unlock()
				return
			}
			bz, err := os.ReadFile(recPath)
			if err != nil {
				mu.Lock()
				fatal += fmt.Sprintf("no record for %s: %v\n", name, err)
				mu.Unlock()
				return
			}
			var wr WorldRecord
			if err := json.Unmarshal(bz, &wr); err != nil {
				mu.Lock()
				fatal += err.Error()
				mu.Unlock()
				return
			}
			interesting := 0
			chains := 0
			for _, c := range wr.Chains {
				if c.Tainted {
					continue
				}
				chains++
				for _, b := range c.Interesting {
					if b {
						interesting++
					}
				}
			}
			// replica 1: in this process
			o1 := replayAll(&wr, 1)
			outs := []replicaOutcome{o1}
			// replicas 2..: separate processes (different heap layout, map seeds, ASLR)
			for k := 0; k < childProcs; k++ {
				rout := fmt.Sprintf("%s/replica-%s-%d.json", outdir, name, k)
				cmd := exec.Command(bin, "-test.run", "TestReplicaChild$", "-test.timeout", "0")
				cmd.Env = append(os.Environ(), "VERIF_REC="+recPath, "VERIF_REPLICA_OUT="+rout, "VERIF_REPLICAS=2", "VERIF_DIRECTED=")
				if outb, err := cmd.CombinedOutput(); err != nil {
					mu.Lock()
					fatal += fmt.Sprintf("replica process for %s failed: %v %s\n", name, err, tail(outb))
					mu.Unlock()
					continue
				}
				var o replicaOutcome
				if rb, err := os.ReadFile(rout); err == nil && json.Unmarshal(rb, &o) == nil {
					outs = append(outs, o)
				}
				os.Remove(rout)
			}
			// race-detector replicas: 4 concurrent replicas per chain plus concurrent queries in a -race process
			raceReports, raceICS := 0, []string{}
			// (the first world of every profile; a bounded prefix of every chain - the detector costs an order of magnitude)
			if rb := os.Getenv("VERIF_RACE_BIN"); rb != "" && j.idx == 200 {
				rout := fmt.Sprintf("%s/race-%s.json", outdir, name)
				rlog := fmt.Sprintf("%s/racelog-%s", outdir, name)
				cmd := exec.Command(rb, "-test.run", "TestReplicaChild$", "-test.timeout", "0")
				cmd.Env = append(os.Environ(), "VERIF_REC="+recPath, "VERIF_REPLICA_OUT="+rout, "VERIF_REPLICAS=3", "VERIF_REPLICA_QUERIES=1", "VERIF_REPLICA_MAXBLOCKS=200", "VERIF_DIRECTED=",
					"GORACE=halt_on_error=0 log_path="+rlog)
				outb, rerr := cmd.CombinedOutput()
				var o replicaOutcome
				if b, err := os.ReadFile(rout); err == nil && json.Unmarshal(b, &o) == nil {
					outs = append(outs, o) // exit status 1 only says "a race was reported"; the reports are judged below
				} else {
					mu.Lock()
					fatal += fmt.Sprintf("race replica process for %s failed: %v %s\n", name, rerr, tail(outb))
					mu.Unlock()
				}
				os.Remove(rout)
				raceReports, raceICS = parseRaceLogs(rlog)
			}
			os.Remove(recPath)
			mu.Lock()
			defer mu.Unlock()
			if os.Getenv("VERIF_RACE_BIN") != "" && j.idx == 200 {
				agg.Event("C18", "race-detector-runs")
				agg.EventN("C18", "race-reports-total", int64(raceReports))
				for _, sig := range raceICS {
					agg.Violation("C18", "data-race:"+sig, map[string]any{"world": name})
				}
			}
			agg.Event("C18", "worlds-recorded")
			agg.EventN("C18", "chains-replayed", int64(chains))
			agg.EventN("C18", "interesting-blocks", int64(interesting))
			for _, o := range outs {
				agg.st("C18").Evaluations += int64(o.Blocks) // one evaluation = one block response compared
				agg.EventN("C18", "replica-blocks-compared", int64(o.Blocks))
				agg.Event("C18", "replica-runs")
				for _, e := range o.Errors {
					fatal += "replica error: " + e + "\n"
				}
				for _, d := range o.Diffs {
					agg.Violation("C18", "replica-diverged:"+strings.TrimSpace(d.Fields), map[string]any{"world": name, "chain": d.Chain, "block": d.Block, "fields": d.Fields, "detail": d.Detail})
				}
			}
			for _, c := range wr.Chains {
				if !c.Tainted {
					agg.Case("C18", fmt.Sprintf("%s/%s/%s blocks=%s", j.profile, c.Kind, c.ChainID, bucket(len(c.Reqs))))
				}
			}
			agg.Sample("C18", map[string]any{"world": name, "chains": chains, "interesting_blocks": interesting, "replica_runs": len(outs)})
		}(j)
	}
	wg.Wait()
	agg.Finish(os.Getenv("VERIF_OUT"), start, fatal)
}

func tail(b []byte) string {
	if len(b) > 600 {
		return string(b[len(b)-600:])
	}
	return string(b)
}

// parseRaceLogs counts "WARNING: DATA RACE" blocks in the race detector logs and returns the signatures of those
// whose racing access itself (top frame of either access stack) is in interchain-security module code (x/ccv).
// Races whose accesses are inside the SDK store / baseapp (e.g. Query vs Commit without CometBFT's ABCI mutex)
// are the environment's and are only counted.
func parseRaceLogs(prefix string) (total int, ics []string) {
	matches, _ := filepath.Glob(prefix + ".*")
	seen := map[string]bool{}
	const mod = "github.com/cosmos/interchain-security/v7/x/ccv"
	for _, f := range matches {
		bz, err := os.ReadFile(f)
		if err != nil {
			continue
		}
		blocks := strings.Split(string(bz), "WARNING: DATA RACE")
		for _, b := range blocks[1:] {
			total++
			lines := strings.Split(b, "\n")
			var tops []string
			for i, line := range lines {
				l := strings.TrimSpace(line)
				if (strings.HasPrefix(l, "Write at") || strings.HasPrefix(l, "Read at") || strings.HasPrefix(l, "Previous write at") || strings.HasPrefix(l, "Previous read at") ||
					strings.HasPrefix(l, "Atomic") || strings.HasPrefix(l, "Previous atomic")) && i+1 < len(lines) {
					tops = append(tops, strings.TrimSpace(lines[i+1]))
				}
			}
			var sig []string
			for _, tp := range tops {
				if strings.HasPrefix(tp, mod) {
					if i := strings.Index(tp, "("); i > 0 && !strings.Contains(tp[:i], ".") {
						tp = tp[:i]
					}
					sig = append(sig, strings.TrimPrefix(tp, "github.com/cosmos/interchain-security/v7/"))
				}
			}
			if len(sig) == 0 {
				continue
			}
			s := strings.Join(sig, "|")
			if !seen[s] {
				seen[s] = true
				ics = append(ics, s)
			}
		}
		os.Remove(f)
	}
	return total, ics
}
