package sim

import (
	"fmt"
	"sort"
	"time"

	abci "github.com/cometbft/cometbft/abci/types"

	sdk "github.com/cosmos/cosmos-sdk/types"

	providertypes "github.com/cosmos/interchain-security/v7/x/ccv/provider/types"
)

type c20shadow struct {
	current providertypes.InfractionParameters
	pending *providertypes.InfractionParameters
	dueAt   time.Time
	queuedN int64 // order in which the pending change entered the schedule (ties at equal due times)
	applied int
}

// monC20: infraction parameters in force; changes delayed by the unbonding period for launched consumers.
type monC20 struct {
	w         *World
	sh        map[string]*c20shadow
	phaseAt   map[string]phase // at PostBegin
	unbonding time.Duration    // at PostBegin
	seq       int64
}

func init() {
	registerMonitor(func(w *World) Monitor { return &monC20{w: w, sh: map[string]*c20shadow{}} })
}

func (m *monC20) Name() string { return "C20" }

func (m *monC20) PostBegin(ctx sdk.Context) {
	pk := m.w.P.PApp.ProviderKeeper
	m.phaseAt = map[string]phase{}
	for _, id := range pk.GetAllConsumerIds(ctx) {
		m.phaseAt[id] = pk.GetConsumerPhase(ctx, id)
	}
	m.unbonding, _ = m.w.P.PApp.StakingKeeper.UnbondingTime(ctx)
}
func (m *monC20) PreEnd(ctx sdk.Context)  {}
func (m *monC20) PostEnd(ctx sdk.Context) {}

func sjpEqual(a, b *providertypes.SlashJailParameters) bool {
	if a == nil || b == nil {
		return a == b
	}
	return a.Tombstone == b.Tombstone && a.SlashFraction.Equal(b.SlashFraction) && a.JailDuration == b.JailDuration
}

func ipEqual(a, b providertypes.InfractionParameters) bool {
	return sjpEqual(a.DoubleSign, b.DoubleSign) && sjpEqual(a.Downtime, b.Downtime)
}

func ipStr(p providertypes.InfractionParameters) string {
	f := func(s *providertypes.SlashJailParameters) string {
		if s == nil {
			return "nil"
		}
		return fmt.Sprintf("{%s %s %v}", s.SlashFraction, s.JailDuration, s.Tombstone)
	}
	return "ds=" + f(p.DoubleSign) + " dt=" + f(p.Downtime)
}

func (m *monC20) AfterBlock(c *Chain, req *abci.RequestFinalizeBlock, res *abci.ResponseFinalizeBlock, txs []TxOutcome) {
	if !c.IsProvider {
		return
	}
	w := m.w
	pk := w.P.PApp.ProviderKeeper
	ctx := c.Ctx()
	now := req.Time
	// (1) BeginBlock: deletions discard pending data, then due changes are applied (at most 200, schedule order)
	for id, s := range m.sh {
		if m.phaseAt[id] == phDeleted && s.pending != nil {
			s.pending = nil
			w.Event("C20", "pending-discarded-on-deletion")
		}
	}
	type due struct {
		id string
		s  *c20shadow
	}
	var dues []due
	for id, s := range m.sh {
		if s.pending != nil && !s.dueAt.After(now) {
			dues = append(dues, due{id, s})
		}
	}
	sort.Slice(dues, func(i, j int) bool {
		if !dues[i].s.dueAt.Equal(dues[j].s.dueAt) {
			return dues[i].s.dueAt.Before(dues[j].s.dueAt)
		}
		return dues[i].s.queuedN < dues[j].s.queuedN
	})
	if len(dues) > 200 {
		w.Event("C20", "blocks-with-more-than-200-due")
		dues = dues[:200]
	}
	for _, d := range dues {
		d.s.current = *d.s.pending
		d.s.pending = nil
		d.s.applied++
		w.Event("C20", "changes-applied")
		off := "later"
		if d.s.dueAt.Equal(now) {
			off = "exactly-due"
		} else if now.Sub(d.s.dueAt) <= time.Nanosecond {
			off = "1ns-after"
		}
		w.Case("C20", "apply:"+off)
	}
	// (2) accepted transactions, in order
	for _, o := range txs {
		if !o.OK() {
			continue
		}
		for _, msg := range o.Spec.Msgs {
			switch t := msg.(type) {
			case *providertypes.MsgCreateConsumer:
				id := eventAttr(o.Result.Events, providertypes.EventTypeCreateConsumer, providertypes.AttributeConsumerId)
				if ip, err := pk.GetInfractionParameters(ctx, id); err == nil {
					m.sh[id] = &c20shadow{current: ip}
					// explicit fields of the request must be in force at once
					if t.InfractionParameters != nil {
						w.Eval("C20")
						if t.InfractionParameters.DoubleSign != nil && !sjpEqual(t.InfractionParameters.DoubleSign, ip.DoubleSign) ||
							t.InfractionParameters.Downtime != nil && !sjpEqual(t.InfractionParameters.Downtime, ip.Downtime) {
							w.Violation("C20", "creation-parameters-not-in-force", map[string]any{"consumer": id, "stored": ipStr(ip), "requested": ipStr(*t.InfractionParameters)})
						}
					}
				}
			case *providertypes.MsgUpdateConsumer:
				if t.InfractionParameters == nil {
					continue
				}
				s := m.sh[t.ConsumerId]
				if s == nil {
					continue
				}
				nw := *t.InfractionParameters
				if nw.DoubleSign == nil {
					nw.DoubleSign = s.current.DoubleSign
				}
				if nw.Downtime == nil {
					nw.Downtime = s.current.Downtime
				}
				ph := m.phaseAt[t.ConsumerId]
				if _, known := m.phaseAt[t.ConsumerId]; !known {
					ph = phReg // created in this very block
				}
				kind := ""
				if ph == phReg || ph == phInit {
					s.current = nw
					kind = "prelaunch-immediate"
				} else {
					had := s.pending != nil
					s.pending = nil
					switch {
					case ipEqual(nw, s.current):
						kind = "equal-to-current"
						if had {
							kind = "cancels-pending"
						}
					default:
						cp := nw
						s.pending = &cp
						s.dueAt = now.Add(m.unbonding)
						m.seq++
						s.queuedN = m.seq
						kind = "queued"
						if had {
							kind = "replaces-pending"
						}
					}
				}
				partial := t.InfractionParameters.DoubleSign == nil || t.InfractionParameters.Downtime == nil
				w.Event("C20", "requests:"+kind)
				w.Case("C20", fmt.Sprintf("request:%s partial=%v", kind, partial))
			}
		}
	}
	// (3) compare with the committed state
	sched, err := readQueue(ctx.KVStore(w.P.PApp.GetKey(providertypes.StoreKey)), providertypes.InfractionScheduledTimeToConsumerIdsKeyPrefix())
	if err != nil {
		w.Violation("C20", "schedule-undecodable", map[string]any{"error": err.Error()})
		return
	}
	inSched := map[string][]time.Time{}
	for _, e := range sched {
		for _, id := range e.IDs {
			inSched[id] = append(inSched[id], e.TS)
		}
	}
	for id, s := range m.sh {
		ph := pk.GetConsumerPhase(ctx, id)
		w.Eval("C20")
		if ph == phDeleted {
			// discarded when the consumer is deleted
			if pk.HasQueuedInfractionParameters(ctx, id) || len(inSched[id]) > 0 {
				w.Violation("C20", "pending-change-survived-deletion", map[string]any{"consumer": id})
			}
			if s.pending != nil {
				s.pending = nil // deleted in this block's BeginBlock: phaseAt (taken after BeginBlock) already said so
			}
			continue
		}
		cur, err := pk.GetInfractionParameters(ctx, id)
		if err != nil {
			w.Violation("C20", "parameters-unreadable", map[string]any{"consumer": id, "error": err.Error()})
			continue
		}
		if !ipEqual(cur, s.current) {
			w.Violation("C20", "parameters-in-force-differ-from-model", map[string]any{"consumer": id, "stored": ipStr(cur), "model": ipStr(s.current), "phase": ph.String(), "time": now.String(),
				"model_pending": s.pending != nil, "model_due": s.dueAt.String()})
			s.current = cur // resynchronise so that one defect is reported once
		}
		hasQ := pk.HasQueuedInfractionParameters(ctx, id)
		if hasQ != (s.pending != nil) {
			w.Violation("C20", "pending-change-presence-differs-from-model", map[string]any{"consumer": id, "stored": hasQ, "model": s.pending != nil, "due": s.dueAt.String(), "time": now.String()})
			if !hasQ {
				s.pending = nil
			}
		} else if hasQ {
			q, _ := pk.GetQueuedInfractionParameters(ctx, id)
			if !ipEqual(q, *s.pending) {
				w.Violation("C20", "pending-change-differs-from-model", map[string]any{"consumer": id, "stored": ipStr(q), "model": ipStr(*s.pending)})
			}
		}
		// schedule <-> queued record consistency: exactly once, at the due time
		switch {
		case s.pending != nil && (len(inSched[id]) != 1 || !inSched[id][0].Equal(s.dueAt)):
			w.Violation("C20", "schedule-entry-wrong", map[string]any{"consumer": id, "entries": fmt.Sprint(inSched[id]), "due": s.dueAt.String()})
		case s.pending == nil && len(inSched[id]) != 0:
			w.Violation("C20", "stale-schedule-entry", map[string]any{"consumer": id, "entries": fmt.Sprint(inSched[id])})
		}
		if s.pending != nil {
			w.Event("C20", "blocks-with-pending-change")
		}
	}
	if len(m.sh) > 0 {
		w.Sample("C20", map[string]any{"height": req.Height, "consumers": len(m.sh), "schedule_entries": len(sched)})
	}
}
