package sim

import (
	"testing"
	"time"

	sdk "github.com/cosmos/cosmos-sdk/types"
	channeltypes "github.com/cosmos/ibc-go/v10/modules/core/04-channel/types"
)

func smokeCfg() Config {
	return Config{Seed: 1, Profile: "smoke", NumVals: 4, SpareVals: 1, Tokens: []int64{5000000, 3000000, 3999999, 3500000},
		M: 3, MaxValidators: 100, BlocksPerEpoch: 2, Unbonding: 1000 * time.Second, EpochsToRewards: 1, SlashFraction: "0.05",
		SlashPeriod: time.Hour, VotingPeriod: 20 * time.Second, CcvTimeout: 4 * 7 * 24 * time.Hour, SignedWindow: 10, KeyPoolSize: 4, Votes: true}
}

func TestSmoke(t *testing.T) {
	w := NewWorld(t, "smoke", smokeCfg())
	w.Relay = NewRelayer(w)
	w.Shadow = &Shadow{ByID: map[string]*CInfo{}}
	w.SetupProvider(nil)
	owner := w.Accts["owner0"]
	w.Tick()
	outs := w.Produce(w.P, []TxSpec{{Signer: owner, Msgs: []sdk.Msg{MsgCreateConsumer(owner, "cons", DefaultInitParams(w.Now.Add(20*time.Second), 800*time.Second), nil, nil)}}}, nil)
	t.Logf("create: %s", logOf(outs[0]))
	var specs []TxSpec
	for _, v := range w.Vals[:4] {
		specs = append(specs, TxSpec{Signer: v.Oper, Msgs: []sdk.Msg{MsgOptIn(v, "0", nil)}})
	}
	w.Tick()
	outs = w.Produce(w.P, specs, nil)
	for _, o := range outs {
		t.Logf("optin: %s", logOf(o))
	}
	for i := 0; i < 6; i++ {
		w.Tick()
		w.Produce(w.P, nil, nil)
	}
	t.Logf("phase %v", w.P.PApp.ProviderKeeper.GetConsumerPhase(w.P.Ctx(), "0"))
	c, err := w.BootConsumer("0", nil, nil)
	if err != nil {
		t.Fatal(err)
	}
	l := w.Relay.Links["0"]
	t.Logf("consumer height %d provclient %s consclient %s engine %d", c.Height(), l.ProvClient, l.ConsClient, len(c.Engine))
	w.Tick()
	w.Produce(w.P, nil, nil)
	if err := l.OpenConnection(); err != nil {
		t.Fatal(err)
	}
	at, cc, pc, lg := l.OpenChannel(ChanSpec{ConsPort: "consumer", ProvPort: "provider", Version: "1", Order: channeltypes.ORDERED}, l.ConsConn, l.ProvConn)
	t.Logf("channel: failedAt=%q cons=%s prov=%s log=%s", at, cc, pc, lg)
	l.ConsChan, l.ProvChan = cc, pc
	// delegate to change powers, then run epochs and relay
	w.Tick()
	w.Produce(w.P, []TxSpec{{Signer: w.Accts["deleg0"], Msgs: []sdk.Msg{MsgDelegate(w.Accts["deleg0"], w.Vals[1], 7_000_000)}}}, nil)
	for i := 0; i < 4; i++ {
		w.Tick()
		w.Produce(w.P, nil, nil)
	}
	t.Logf("in flight to consumer: %d", len(l.ToCons))
	var rs []TxSpec
	if ups := w.updateClientMsgs(c, l.ConsClient, w.P); len(ups) > 0 {
		rs = append(rs, TxSpec{Signer: c.relayer, Msgs: ups})
	}
	rs = append(rs, w.relayBatch(l, &l.ToCons, 10, w.P, c, "relay-recv")...)
	w.Tick()
	outs = w.Produce(c, rs, nil)
	for _, o := range outs {
		t.Logf("relay: %s", logOf(o))
	}
	t.Logf("acks to prov %d; consumer engine %v", len(l.AcksToProv), c.Engine)
	t.Logf("violations: %v", w.Violations())
}
