package sim

import (
	"encoding/json"
	"fmt"
	"math/rand"
	"os"
	"sort"
	"testing"
	"time"

	cmttypes "github.com/cometbft/cometbft/types"

	ccvtypes "github.com/cosmos/interchain-security/v7/x/ccv/types"
)

// Violation is one oracle failure with its witness.
type Violation struct {
	Property  string         `json:"property"`
	Signature string         `json:"signature"`
	Details   map[string]any `json:"details"`
	Step      int            `json:"step"`
	PHeight   int64          `json:"provider_height"`
}

// PropStats collects what the monitors of one property observed.
type PropStats struct {
	Evaluations int64            `json:"evaluations"`
	Events      map[string]int64 `json:"events"`
	Distinct    map[string]bool  `json:"-"`
	DistinctN   int              `json:"distinct"`
	DistinctL   []string         `json:"distinct_keys,omitempty"`
	Samples     []any            `json:"samples"`
}

// Result is the JSON a world writes when it ends.
type Result struct {
	World      string                `json:"world"`
	Profile    string                `json:"profile"`
	Seed       int64                 `json:"seed"`
	Config     any                   `json:"config"`
	Steps      int                   `json:"steps"`
	Blocks     map[string]int64      `json:"blocks"`
	Stats      map[string]*PropStats `json:"stats"`
	Violations []Violation           `json:"violations"`
	Fatal      string                `json:"fatal,omitempty"`
	OpLog      []string              `json:"oplog,omitempty"`
	WallS      float64               `json:"wall_s"`
}

// World is one simulated universe: a provider, any number of consumers, actors and monitors.
type World struct {
	T    testing.TB
	Cfg  Config
	Name string
	Rnd  *rand.Rand
	Now  time.Time
	Step int

	P         *Chain
	Consumers map[string]*Chain // live consumer chains by consumer id
	ConsOrder []string

	Vals     []*Val
	Accts    map[string]*Account
	AcctList []*Account
	KeyPool  []*ConsKey
	Signers  map[string]cmttypes.PrivValidator

	Relay *Relayer
	Calls *CallRec

	stats      map[string]*PropStats
	violations []Violation
	vioSeen    map[string]bool
	oplog      []string
	verbose    bool

	Mons []Monitor

	menu              []opGen
	consumerTweak     func(id string, g *ccvtypes.ConsumerGenesisState)
	afterHandshake    func(ci *CInfo, l *Link)
	hostileQueued     map[string]int
	lastRefresh       time.Time
	NoKeepAlive       bool
	propsThisStep     int
	errAckDone        bool
	createsThisStep   int
	stepExtra         func() []TxSpec
	providerBlockOpts func() *BlockOpts
	consumerExtra     func(l *Link) ([]TxSpec, *BlockOpts)
	// shadow state shared by monitors lives in their own structs
	Shadow *Shadow
}

// Monitor is an online monitor attached to a world.
type Monitor interface {
	Name() string
}

func (w *World) Infof(f string, a ...any) {
	if w.verbose {
		fmt.Fprintf(os.Stderr, "[%s step %d] %s\n", w.Name, w.Step, fmt.Sprintf(f, a...))
	}
}

func (w *World) Op(f string, a ...any) {
	s := fmt.Sprintf("%d|%s", w.Step, fmt.Sprintf(f, a...))
	w.oplog = append(w.oplog, s)
	if w.verbose {
		fmt.Fprintln(os.Stderr, "OP "+s)
	}
}

func (w *World) st(prop string) *PropStats {
	s, ok := w.stats[prop]
	if !ok {
		s = &PropStats{Events: map[string]int64{}, Distinct: map[string]bool{}}
		w.stats[prop] = s
	}
	return s
}

// Eval records one oracle evaluation for a property.
func (w *World) Eval(prop string) { w.st(prop).Evaluations++ }

// Event counts an observed event kind.
func (w *World) Event(prop, kind string)           { w.st(prop).Events[kind]++ }
func (w *World) EventN(prop, kind string, n int64) { w.st(prop).Events[kind] += n }

// Case records an abstract non-trivial case key (for distinct_nontrivial).
func (w *World) Case(prop, key string) { w.st(prop).Distinct[key] = true }

// Sample keeps up to a few concrete samples.
func (w *World) Sample(prop string, v any) {
	s := w.st(prop)
	if len(s.Samples) < 4 {
		s.Samples = append(s.Samples, v)
	}
}

// Violation records a violation (deduplicated by property+signature within the world).
func (w *World) Violation(prop, sig string, details map[string]any) {
	k := prop + "|" + sig
	if w.vioSeen[k] {
		return
	}
	w.vioSeen[k] = true
	var ph int64
	if w.P != nil && w.P.TC != nil {
		ph = w.P.Height()
	}
	w.violations = append(w.violations, Violation{Property: prop, Signature: sig, Details: details, Step: w.Step, PHeight: ph})
	fmt.Fprintf(os.Stderr, "[%s] VIOLATION-CANDIDATE %s %s %v\n", w.Name, prop, sig, details)
}

func (w *World) Violations() []Violation { return w.violations }

// Finish writes the result file.
func (w *World) Finish(path string, start time.Time, fatal string) {
	res := Result{
		World: w.Name, Profile: w.Cfg.Profile, Seed: w.Cfg.Seed, Config: w.Cfg, Steps: w.Step,
		Blocks: map[string]int64{}, Stats: w.stats, Violations: w.violations, Fatal: fatal,
		WallS: time.Since(start).Seconds(),
	}
	if w.P != nil && w.P.TC != nil {
		res.Blocks["provider"] = w.P.Height()
	}
	for id, c := range w.Consumers {
		res.Blocks["consumer:"+id] = c.Height()
	}
	for _, s := range w.stats {
		s.DistinctN = len(s.Distinct)
		keys := make([]string, 0, len(s.Distinct))
		for k := range s.Distinct {
			keys = append(keys, k)
		}
		sort.Strings(keys)
		s.DistinctL = keys
	}
	if len(w.violations) > 0 || fatal != "" {
		res.OpLog = w.oplog
	}
	bz, err := json.MarshalIndent(res, "", " ")
	if err != nil {
		panic(err)
	}
	if err := os.WriteFile(path, bz, 0o644); err != nil {
		panic(err)
	}
}

func NewWorld(t testing.TB, name string, cfg Config) *World {
	w := &World{
		T: t, Cfg: cfg, Name: name,
		Rnd:       rand.New(rand.NewSource(cfg.Seed)),
		Now:       time.Date(2030, 1, 1, 0, 0, 0, 0, time.UTC),
		Consumers: map[string]*Chain{},
		Accts:     map[string]*Account{},
		Signers:   map[string]cmttypes.PrivValidator{},
		stats:     map[string]*PropStats{},
		vioSeen:   map[string]bool{},
		verbose:   os.Getenv("VERIF_VERBOSE") != "",
	}
	return w
}
