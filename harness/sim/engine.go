package sim

import (
	"fmt"
	"sort"
	"strconv"
	"strings"

	sdk "github.com/cosmos/cosmos-sdk/types"
	"time"

	stakingtypes "github.com/cosmos/cosmos-sdk/x/staking/types"

	channeltypes "github.com/cosmos/ibc-go/v10/modules/core/04-channel/types"
	host "github.com/cosmos/ibc-go/v10/modules/core/24-host"

	providertypes "github.com/cosmos/interchain-security/v7/x/ccv/provider/types"
	ccvtypes "github.com/cosmos/interchain-security/v7/x/ccv/types"
)

// CInfo is what the harness remembers about a consumer it created.
type CInfo struct {
	ID       string
	ChainID  string
	Owner    *Account // nil once owned by gov
	WantLive bool
	Booted   bool
	BootFail bool

	HandshakeAt int // step at which the relayer starts the CCV handshake
	ChanOpen    bool
	XferOpen    bool
	RelayMode   int // 0 prompt, 1 batchy, 2 laggy
	Hostile     bool
	StarveAt    int // step from which the relayer delivers nothing to this consumer (0: never)
	RemoveAt    int // step at which the owner removes this consumer (0: not scheduled)
}

// Prop is a governance proposal in flight.
type Prop struct {
	ID    uint64
	Desc  string
	Voted bool
}

// Shadow is harness-side knowledge needed to generate meaningful operations.
type Shadow struct {
	Consumers []*CInfo
	ByID      map[string]*CInfo
	Props     []*Prop
}

// Phase returns the current phase of a consumer on committed provider state.
func (w *World) Phase(id string) providertypes.ConsumerPhase {
	return w.P.PApp.ProviderKeeper.GetConsumerPhase(w.P.Ctx(), id)
}

// Init prepares everything: provider, relayer, shadow.
func (w *World) Init(pr *Probes) {
	w.Relay = NewRelayer(w)
	w.Shadow = &Shadow{ByID: map[string]*CInfo{}}
	w.SetupProvider(pr)
}

// trackTxOutcomes updates the shadow from the results of provider txs.
func (w *World) trackTxOutcomes(outs []TxOutcome) {
	for _, o := range outs {
		if !o.OK() {
			continue
		}
		for _, m := range o.Spec.Msgs {
			switch msg := m.(type) {
			case *providertypes.MsgCreateConsumer:
				id := eventAttr(o.Result.Events, providertypes.EventTypeCreateConsumer, providertypes.AttributeConsumerId)
				if id == "" {
					continue
				}
				ci := &CInfo{ID: id, ChainID: msg.ChainId, Owner: w.acctByAddr(msg.Submitter)}
				if o.Spec.Tag == "live" {
					ci.WantLive = true
					ci.HandshakeAt = w.Step + 2 + w.Rnd.Intn(1+w.Cfg.HandshakeDelayMax)
					ci.RelayMode = w.Rnd.Intn(3)
					if w.Cfg.StarveSome && len(w.Shadow.Consumers) == 0 {
						ci.StarveAt = 25 + w.Rnd.Intn(30)
					}
					if w.Cfg.LateHandshakeStop && len(w.Shadow.Consumers) == 2 {
						// stopped while packets for it are queued and no channel exists yet; the handshake completes afterwards
						ci.HandshakeAt = 22 + w.Rnd.Intn(8)
						ci.RemoveAt = ci.HandshakeAt - 4
						ci.RelayMode = 0
					}
				}
				w.Shadow.Consumers = append(w.Shadow.Consumers, ci)
				w.Shadow.ByID[id] = ci
			case *stakingtypes.MsgCreateValidator:
				for _, v := range w.Vals {
					if v.ValAddr.String() == msg.ValidatorAddress {
						v.Created = true
						for _, k := range append([]*ConsKey{v.Key}, w.KeyPool...) {
							if strings.HasSuffix(o.Spec.Tag, ":"+k.Name) {
								v.Key = k
							}
						}
					}
				}
			case *providertypes.MsgUpdateConsumer:
				if ci := w.Shadow.ByID[msg.ConsumerId]; ci != nil {
					if msg.NewOwnerAddress != "" {
						ci.Owner = w.acctByAddr(msg.NewOwnerAddress)
					}
					if msg.NewChainId != "" {
						ci.ChainID = msg.NewChainId
					}
				}
			}
		}
		if pid := eventAttr(o.Result.Events, "submit_proposal", "proposal_id"); pid != "" {
			id, _ := strconv.ParseUint(pid, 10, 64)
			w.Shadow.Props = append(w.Shadow.Props, &Prop{ID: id, Desc: o.Spec.Tag, Voted: true})
		}
	}
}

func (w *World) acctByAddr(addr string) *Account {
	for _, a := range w.AcctList {
		if a.Addr.String() == addr {
			return a
		}
	}
	return nil
}

// ProviderStep produces one provider block with the given user txs plus relayed traffic (unless solo).
func (w *World) ProviderStep(specs []TxSpec, solo bool, opts *BlockOpts) []TxOutcome {
	if !solo {
		specs = append(specs, w.relayToProvider()...)
	}
	outs := w.Produce(w.P, specs, opts)
	for _, o := range outs {
		tag := o.Spec.Tag
		if i := strings.IndexByte(tag, ':'); i >= 0 {
			tag = tag[:i]
		}
		if o.OK() {
			w.Event("_tx", tag+":ok")
		} else if o.Result != nil {
			w.Event("_tx", fmt.Sprintf("%s:fail:%s/%d", tag, o.Result.Codespace, o.Result.Code))
			w.Infof("tx failed %s: %s", o.Spec.Tag, o.Result.Log)
		}
	}
	w.trackTxOutcomes(outs)
	w.bootLaunched()
	return outs
}

// bootLaunched boots live consumers that the provider has just launched.
func (w *World) bootLaunched() {
	for _, ci := range w.Shadow.Consumers {
		if !ci.WantLive || ci.Booted || ci.BootFail {
			continue
		}
		if w.Phase(ci.ID) != providertypes.CONSUMER_PHASE_LAUNCHED {
			continue
		}
		var tweak ConsumerGenesisTweak
		if w.consumerTweak != nil {
			id := ci.ID
			tweak = func(g *ccvtypes.ConsumerGenesisState) { w.consumerTweak(id, g) }
		}
		c, err := w.BootConsumer(ci.ID, w.consumerProbes(ci.ID), tweak)
		if err != nil {
			ci.BootFail = true
			w.Violation("C19", "consumer-boot-failed", map[string]any{"consumer": ci.ID, "error": err.Error()})
			continue
		}
		ci.Booted = true
		w.Op("boot consumer %s (%s) height=%d vals=%d", ci.ID, c.ID, c.Height(), len(c.Engine))
		for _, m := range w.Mons {
			if bm, ok := m.(BootMonitor); ok {
				bm.AfterBoot(c)
			}
		}
	}
}

// BootMonitor is told when a live consumer chain has been instantiated.
type BootMonitor interface{ AfterBoot(c *Chain) }

// relayToProvider builds the txs that deliver consumer->provider traffic into the next provider block.
func (w *World) relayToProvider() []TxSpec {
	var specs []TxSpec
	racct := w.Accts["relayer"]
	for _, id := range w.Relay.Order {
		l := w.Relay.Links[id]
		if l.C == nil || l.C.Halted {
			continue
		}
		if len(l.ToProv) == 0 && len(l.AcksToProv) == 0 && len(l.Timeouts) == 0 && !l.CloseConfirm {
			continue
		}
		ci := w.Shadow.ByID[id]
		// schedule: prompt links always relay; others with some probability
		if ci != nil && ci.RelayMode != 0 && w.Rnd.Intn(3) != 0 && len(l.Timeouts) == 0 && !l.CloseConfirm {
			continue
		}
		if clientStatus(w.P, l.ProvClient) != "Active" {
			continue
		}
		pk := w.relayBatch(l, &l.ToProv, 1+w.Rnd.Intn(4), l.C, w.P, "relay-recv:"+id)
		ak := w.relayBatch(l, &l.AcksToProv, 1+w.Rnd.Intn(8), l.C, w.P, "relay-ack:"+id)
		to := w.timeoutSpecs(l, w.P, l.C, l.ProvClient)
		var cl []TxSpec
		if l.CloseConfirm && l.ProvChan != "" {
			proof, ph := proofAt(l.C, host.ChannelKey("consumer", l.ConsChan))
			ll := l
			cl = append(cl, TxSpec{Signer: racct, Msgs: []sdk.Msg{channeltypes.NewMsgChannelCloseConfirm("provider", l.ProvChan, proof, ph, racct.Addr.String())}, Tag: "relay-close:" + id,
				OnResult: func(o TxOutcome) {
					ll.CloseConfirm = false
					ll.CloseDone = true
				}})
		}
		if len(pk)+len(ak)+len(to)+len(cl) == 0 {
			continue
		}
		if ups := w.updateClientMsgs(w.P, l.ProvClient, l.C); len(ups) > 0 {
			specs = append(specs, TxSpec{Signer: racct, Msgs: ups, Tag: "relay-update:" + id})
		}
		specs = append(specs, cl...)
		specs = append(specs, pk...)
		specs = append(specs, ak...)
		specs = append(specs, to...)
	}
	return specs
}

// ConsumerStep produces one block on a live consumer, delivering up to nPackets provider packets and pending acks.
func (w *World) ConsumerStep(l *Link, nPackets, nAcks int, extra []TxSpec, opts *BlockOpts) []TxOutcome {
	c := l.C
	if c == nil || c.Halted {
		return nil
	}
	var specs []TxSpec
	if clientStatus(c, l.ConsClient) == "Active" {
		pk := w.relayBatch(l, &l.ToCons, nPackets, w.P, c, "relay-recv")
		ak := w.relayBatch(l, &l.AcksToCons, nAcks, w.P, c, "relay-ack")
		to := w.timeoutSpecs(l, c, w.P, l.ConsClient)
		if len(pk)+len(ak)+len(to) > 0 {
			if ups := w.updateClientMsgs(c, l.ConsClient, w.P); len(ups) > 0 {
				specs = append(specs, TxSpec{Signer: c.relayer, Msgs: ups, Tag: "relay-update"})
			}
			specs = append(specs, pk...)
			specs = append(specs, ak...)
			specs = append(specs, to...)
		}
	}
	specs = append(specs, extra...)
	return w.Produce(c, specs, opts)
}

// Handshake opens the CCV channel of a live consumer (blocking: uses several blocks on both chains).
func (w *World) Handshake(ci *CInfo) {
	l := w.Relay.Links[ci.ID]
	if l == nil {
		return
	}
	w.Op("handshake start %s", ci.ID)
	w.Tick()
	w.ProviderStep(nil, true, nil)
	if err := l.OpenConnection(); err != nil {
		w.Op("handshake: connection failed for %s: %v", ci.ID, err)
		ci.ChanOpen = true // do not retry forever
		return
	}
	at, cc, pc, lg := l.OpenChannel(ChanSpec{ConsPort: "consumer", ProvPort: "provider", Version: "1", Order: channeltypes.ORDERED}, l.ConsConn, l.ProvConn)
	ci.ChanOpen = true
	if at != "" {
		w.Op("handshake: channel failed at %s for %s: %s", at, ci.ID, lg)
		return
	}
	l.ConsChan, l.ProvChan = cc, pc
	w.Op("handshake done %s cons=%s prov=%s", ci.ID, cc, pc)
	w.Event("C17", "honest-handshake-completed")
	if w.afterHandshake != nil {
		w.afterHandshake(ci, l)
	}
}

// LiveLinks returns the links of booted consumers in creation order.
func (w *World) LiveLinks() []*Link {
	var out []*Link
	for _, id := range w.Relay.Order {
		l := w.Relay.Links[id]
		if l.C != nil && !l.C.Halted && !l.Dead {
			out = append(out, l)
		}
	}
	return out
}

// forgeErrorAck: a malicious consumer binary answers a validator-set-change packet with an error acknowledgement.
// The acknowledgement the honest module wrote is replaced in the consumer's IBC store (committed with its next block) and
// relayed to the provider with a genuine proof. Returns false when no undelivered VSC acknowledgement is waiting.
func (w *World) forgeErrorAck(l *Link) bool {
	for _, f := range l.AcksToProv {
		p := f.Packet
		if f.Done || p.SourcePort != "provider" || p.DestinationPort != "consumer" {
			continue
		}
		bz := channeltypes.NewErrorAcknowledgement(fmt.Errorf("malicious consumer refuses the validator set")).Acknowledgement()
		l.C.CApp.IBCKeeper.ChannelKeeper.SetPacketAcknowledgement(l.C.WriteCtx(), p.DestinationPort, p.DestinationChannel, p.Sequence, channeltypes.CommitAcknowledgement(bz))
		if l.C.Rec != nil {
			l.C.Rec.Tainted = true
		}
		f.Ack = bz
		f.Height = l.C.Height() + 1 // provable once the consumer's next block is committed
		w.Op("malicious consumer %s: error acknowledgement for VSC packet seq=%d", l.CID, p.Sequence)
		w.Event("_tx", "forged-error-ack")
		return true
	}
	return false
}

// ConsumersStep advances every live consumer by one block according to its relay schedule.
func (w *World) ConsumersStep() {
	for _, l := range w.LiveLinks() {
		ci := w.Shadow.ByID[l.CID]
		if ci != nil && !ci.ChanOpen && w.Step >= ci.HandshakeAt {
			w.Handshake(ci)
			continue
		}
		n, a := 0, 0
		mode := 0
		if ci != nil {
			mode = ci.RelayMode
		}
		if l.Starved {
			mode = 3
		} else if ci != nil && ci.StarveAt > 0 && w.Step >= ci.StarveAt {
			l.Starved = true
			w.Op("relayer starves consumer %s from now on", l.CID)
			mode = 3
		}
		if w.Cfg.ErrAckStep > 0 && w.Step >= w.Cfg.ErrAckStep-8 && !w.errAckDone && mode != 3 {
			mode = 0 // keep traffic flowing so that an acknowledgement is there to be forged
		}
		switch mode {
		case 3: // nothing is delivered any more (packets will time out)
			n, a = 0, 0
			// timeouts are discovered when the relayer looks at the queue
			w.relayBatch(l, &l.ToCons, 0, w.P, l.C, "relay-recv")
			for _, f := range l.ToCons {
				if !f.Done && f.Packet.TimeoutTimestamp != 0 && uint64(w.Now.UnixNano()) >= f.Packet.TimeoutTimestamp {
					f.Done, f.TimedOut = true, true
					l.Timeouts = append(l.Timeouts, &InFlight{Packet: f.Packet, Height: f.Height, SentStep: f.SentStep, FromProv: f.FromProv})
				}
			}
		case 0:
			n, a = 1+w.Rnd.Intn(3), 4
		case 1: // batchy: deliver everything every few steps
			if w.Rnd.Intn(4) == 0 {
				n, a = 100, 100
			}
		case 2: // laggy
			if w.Rnd.Intn(3) == 0 {
				n, a = 1+w.Rnd.Intn(2), 1+w.Rnd.Intn(3)
			}
		}
		var extra []TxSpec
		var opts *BlockOpts
		if w.consumerExtra != nil {
			extra, opts = w.consumerExtra(l)
		}
		w.ConsumerStep(l, n, a, extra, opts)
		// right after the block that wrote an acknowledgement, before the relayer picks it up
		if w.Cfg.ErrAckStep > 0 && w.Step >= w.Cfg.ErrAckStep && !w.errAckDone && ci != nil && ci.StarveAt == 0 && !l.Starved && l.ProvChan != "" {
			w.errAckDone = w.forgeErrorAck(l)
		}
	}
}

// LongAdvance moves time forward by d in sub-steps small enough to keep light clients alive
// (every sub-step produces blocks and refreshes clients), unless expire is set.
func (w *World) LongAdvance(d time.Duration, keepAlive bool) {
	if !keepAlive {
		w.AdvanceTime(d)
		return
	}
	sub := w.minTrusting() * 2 / 5
	if sub <= 0 {
		sub = d
	}
	for d > 0 {
		s := sub
		if s > d {
			s = d
		}
		w.AdvanceTime(s)
		d -= s
		if d <= 0 {
			break // the caller produces the block at the final instant
		}
		w.refreshClients()
	}
}

func (w *World) minTrusting() time.Duration {
	m := w.Cfg.Unbonding * 66 / 100
	for range w.LiveLinks() {
		cu := w.Cfg.ConsumerUnbonding * 66 / 100
		if cu < m {
			m = cu
		}
	}
	return m
}

// refreshClients produces fresh headers everywhere and updates all clients in both directions.
func (w *World) refreshClients() {
	racct := w.Accts["relayer"]
	w.lastRefresh = w.Now
	// fresh consumer headers first
	for _, l := range w.LiveLinks() {
		w.Produce(l.C, nil, nil)
	}
	var specs []TxSpec
	for _, l := range w.LiveLinks() {
		if clientStatus(w.P, l.ProvClient) == "Active" {
			if ups := w.updateClientMsgs(w.P, l.ProvClient, l.C); len(ups) > 0 {
				specs = append(specs, TxSpec{Signer: racct, Msgs: ups, Tag: "keepalive"})
			}
		}
	}
	w.ProviderStep(specs, true, nil)
	for _, l := range w.LiveLinks() {
		var cs []TxSpec
		if clientStatus(l.C, l.ConsClient) == "Active" {
			if ups := w.updateClientMsgs(l.C, l.ConsClient, w.P); len(ups) > 0 {
				cs = append(cs, TxSpec{Signer: l.C.relayer, Msgs: ups, Tag: "keepalive"})
			}
		}
		w.Produce(l.C, cs, nil)
	}
}

// maybeKeepAlive refreshes the clients when a third of the shortest trusting period has passed since the last refresh.
func (w *World) maybeKeepAlive() {
	if w.NoKeepAlive || len(w.LiveLinks()) == 0 {
		return
	}
	if w.Now.Sub(w.lastRefresh) > w.minTrusting()/3 {
		w.refreshClients()
	}
}

// sortedKeys is a small helper for deterministic iteration.
func sortedKeys[V any](m map[string]V) []string {
	ks := make([]string, 0, len(m))
	for k := range m {
		ks = append(ks, k)
	}
	sort.Strings(ks)
	return ks
}

func (w *World) String() string { return fmt.Sprintf("world(%s seed=%d)", w.Name, w.Cfg.Seed) }
