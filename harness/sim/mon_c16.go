package sim

import (
	"fmt"
	"sort"
	"strings"

	"cosmossdk.io/math"

	abci "github.com/cometbft/cometbft/abci/types"

	sdk "github.com/cosmos/cosmos-sdk/types"
	authtypes "github.com/cosmos/cosmos-sdk/x/auth/types"
	distrtypes "github.com/cosmos/cosmos-sdk/x/distribution/types"

	transfertypes "github.com/cosmos/ibc-go/v10/modules/apps/transfer/types"
	channeltypes "github.com/cosmos/ibc-go/v10/modules/core/04-channel/types"

	consumertypes "github.com/cosmos/interchain-security/v7/x/ccv/consumer/types"
	providertypes "github.com/cosmos/interchain-security/v7/x/ccv/provider/types"
	ccv "github.com/cosmos/interchain-security/v7/x/ccv/types"
)

// ---------------------------------------------------------------------------------------------------------
// consumer side

type consFeeSnap struct {
	fc, rd, ts, escrow sdk.Coins
	frac               math.LegacyDec
	bpdt, ltbh         int64
	allowed            map[string]bool
	chanOpen           bool
	channel            string
}

func (w *World) readConsFees(c *Chain, ctx sdk.Context) consFeeSnap {
	bk := c.CApp.BankKeeper
	ck := c.CApp.ConsumerKeeper
	s := consFeeSnap{
		fc: bk.GetAllBalances(ctx, authtypes.NewModuleAddress(authtypes.FeeCollectorName)),
		rd: bk.GetAllBalances(ctx, authtypes.NewModuleAddress(consumertypes.ConsumerRedistributeName)),
		ts: bk.GetAllBalances(ctx, authtypes.NewModuleAddress(consumertypes.ConsumerToSendToProviderName)),
	}
	s.frac, _ = math.LegacyNewDecFromStr(ck.GetConsumerRedistributionFrac(ctx))
	s.bpdt = ck.GetBlocksPerDistributionTransmission(ctx)
	s.ltbh = ck.GetLastTransmissionBlockHeight(ctx).Height
	s.allowed = map[string]bool{}
	for _, d := range ck.AllowedRewardDenoms(ctx) {
		s.allowed[d] = true
	}
	s.channel = ck.GetDistributionTransmissionChannel(ctx)
	if s.channel != "" {
		if ch, ok := c.CApp.IBCKeeper.ChannelKeeper.GetChannel(ctx, "transfer", s.channel); ok && ch.State == channeltypes.OPEN {
			s.chanOpen = true
		}
		s.escrow = bk.GetAllBalances(ctx, transfertypes.GetEscrowAddress("transfer", s.channel))
	}
	return s
}

// monC16: rewards are conserved end to end and reach only eligible validators.
type monC16 struct {
	w     *World
	cPre  map[string]consFeeSnap // by consumer id, at CPreEnd
	cPost map[string]consFeeSnap
	// provider side
	prevEnd        *provRewardSnap
	begin          *provRewardSnap
	preEnd         *provRewardSnap
	joined         map[string]map[string]int64    // consumer -> provider cons hex -> height at which membership (contiguously) began
	sentByConsumer map[string]map[string]math.Int // consumer id -> consumer denom -> total put on the wire
	creditedFor    map[string]map[string]math.Int // consumer id -> consumer denom -> total credited on the provider
	refunded       map[string]map[string]math.Int
}

type provRewardSnap struct {
	height       int64
	pool         sdk.Coins
	distrBal     sdk.Coins
	credits      map[string]sdk.DecCoins // consumer -> credits
	cp           sdk.DecCoins            // community pool
	outstanding  map[string]sdk.DecCoins // operator -> outstanding rewards
	commission   map[string]sdk.DecCoins // operator -> accumulated commission
	denomsGlobal map[string]bool
	denomsCons   map[string]map[string]bool
	sets         map[string][]providertypes.ConsensusValidator
	tax          math.LegacyDec
	eligBlocks   int64
	rates        map[string]map[string]math.LegacyDec // consumer -> provider cons hex -> per-consumer commission
	valRate      map[string]math.LegacyDec            // operator -> validator commission rate
	operOf       map[string]string                    // provider cons hex -> operator
	phases       map[string]phase
}

func init() {
	registerMonitor(func(w *World) Monitor {
		return &monC16{w: w, cPre: map[string]consFeeSnap{}, cPost: map[string]consFeeSnap{}, joined: map[string]map[string]int64{},
			sentByConsumer: map[string]map[string]math.Int{}, creditedFor: map[string]map[string]math.Int{}}
	})
}

func (m *monC16) Name() string { return "C16" }

func (m *monC16) CPostBegin(c *Chain, ctx sdk.Context) {}
func (m *monC16) CPreEnd(c *Chain, ctx sdk.Context)    { m.cPre[c.ConsumerID] = m.w.readConsFees(c, ctx) }
func (m *monC16) CPostEnd(c *Chain, ctx sdk.Context) {
	m.cPost[c.ConsumerID] = m.w.readConsFees(c, ctx)
}

func amt(c sdk.Coins, d string) math.Int { return c.AmountOf(d) }

func (m *monC16) afterConsumer(c *Chain, req *abci.RequestFinalizeBlock, res *abci.ResponseFinalizeBlock, txs []TxOutcome) {
	m.tallyRefunds(c, txs)
	w := m.w
	id := c.ConsumerID
	pre, okA := m.cPre[id]
	post, okB := m.cPost[id]
	if !okA || !okB {
		return
	}
	h := req.Height
	w.Eval("C16")
	w.Event("C16", "consumer-blocks")
	if !post.fc.IsZero() {
		w.Violation("C16", "consumer-fee-collector-not-emptied", map[string]any{"consumer": id, "height": h, "left": post.fc.String()})
	}
	shouldSend := h-pre.ltbh >= pre.bpdt
	// packets put on the wire in this EndBlock
	sent := sdk.NewCoins()
	for _, p := range parseSent(res.Events) {
		if p.SourcePort != "transfer" {
			continue
		}
		var d transfertypes.FungibleTokenPacketData
		if err := transfertypes.ModuleCdc.UnmarshalJSON(p.Data, &d); err != nil {
			continue
		}
		a, _ := math.NewIntFromString(d.Amount)
		sent = sent.Add(sdk.NewCoin(d.Denom, a))
		w.Event("C16", "reward-transfers-sent")
		if !pre.allowed[d.Denom] {
			w.Violation("C16", "non-allowed-denom-sent-to-provider", map[string]any{"consumer": id, "denom": d.Denom, "height": h})
		}
		if d.Receiver != c.CApp.ConsumerKeeper.GetProviderFeePoolAddrStr(c.Ctx()) {
			w.Violation("C16", "reward-transfer-to-wrong-receiver", map[string]any{"consumer": id, "receiver": d.Receiver})
		}
		if p.SourceChannel != pre.channel {
			w.Violation("C16", "reward-transfer-on-wrong-channel", map[string]any{"consumer": id, "channel": p.SourceChannel})
		}
		tallyAdd(m.sentByConsumer, id, d.Denom, a)
		w.Infof("C16 transfer sent consumer=%s seq=%d %s%s timeout=%d", id, p.Sequence, d.Amount, d.Denom, p.TimeoutTimestamp)
	}
	if !sent.IsZero() {
		if !shouldSend {
			w.Violation("C16", "reward-transmission-at-wrong-height", map[string]any{"consumer": id, "height": h, "last": pre.ltbh, "period": pre.bpdt})
		}
		if !pre.chanOpen {
			w.Violation("C16", "reward-transmission-while-channel-not-open", map[string]any{"consumer": id, "height": h})
		}
	}
	if shouldSend != (post.ltbh == h) && !(post.ltbh == h && pre.ltbh == h) {
		w.Violation("C16", "last-transmission-height-bookkeeping", map[string]any{"consumer": id, "height": h, "before": pre.ltbh, "after": post.ltbh, "period": pre.bpdt})
	}
	denoms := map[string]bool{}
	for _, cs := range []sdk.Coins{pre.fc, pre.rd, pre.ts, post.rd, post.ts, sent} {
		for _, c := range cs {
			denoms[c.Denom] = true
		}
	}
	for d := range denoms {
		fees := amt(pre.fc, d)
		consShare := pre.frac.MulInt(fees).TruncateInt()
		provShare := fees.Sub(consShare)
		if got := amt(post.rd, d).Sub(amt(pre.rd, d)); !got.Equal(consShare) {
			w.Violation("C16", "consumer-share-not-fraction-rounded-down", map[string]any{"consumer": id, "denom": d, "fees": fees.String(), "fraction": pre.frac.String(), "got": got.String(), "want": consShare.String()})
		}
		out := amt(sent, d)
		if got := amt(post.ts, d).Sub(amt(pre.ts, d)); !got.Equal(provShare.Sub(out)) {
			w.Violation("C16", "provider-share-accumulation", map[string]any{"consumer": id, "denom": d, "fees": fees.String(), "got": got.String(), "want": provShare.Sub(out).String(), "sent": out.String()})
		}
		if !out.IsZero() {
			// everything accumulated in an allowed denom leaves at once, and lands in the channel escrow
			if !amt(post.ts, d).IsZero() {
				w.Violation("C16", "partial-reward-transmission", map[string]any{"consumer": id, "denom": d, "left": amt(post.ts, d).String()})
			}
			if got := amt(post.escrow, d).Sub(amt(pre.escrow, d)); !got.Equal(out) {
				w.Violation("C16", "escrow-differs-from-sent", map[string]any{"consumer": id, "denom": d, "escrowed": got.String(), "sent": out.String()})
			}
		}
		if !fees.IsZero() {
			w.Event("C16", "fee-splits-checked")
			w.Case("C16", fmt.Sprintf("split frac=%s amount=%s allowed=%v", pre.frac.String()[:4], magnitude(fees), pre.allowed[d]))
		}
	}
}

func magnitude(i math.Int) string {
	s := i.String()
	switch {
	case i.IsZero():
		return "0"
	case len(s) <= 1:
		return "1-9"
	case len(s) <= 6:
		return "<1e6"
	case len(s) <= 12:
		return "<1e12"
	}
	return ">=1e12"
}

// ---------------------------------------------------------------------------------------------------------
// provider side

func (m *monC16) readProv(ctx sdk.Context) *provRewardSnap {
	w := m.w
	pk := w.P.PApp.ProviderKeeper
	bk := w.P.PApp.BankKeeper
	dk := w.P.PApp.DistrKeeper
	s := &provRewardSnap{height: ctx.BlockHeight(), credits: map[string]sdk.DecCoins{}, outstanding: map[string]sdk.DecCoins{}, commission: map[string]sdk.DecCoins{},
		denomsGlobal: map[string]bool{}, denomsCons: map[string]map[string]bool{}, sets: map[string][]providertypes.ConsensusValidator{},
		rates: map[string]map[string]math.LegacyDec{}, valRate: map[string]math.LegacyDec{}, operOf: map[string]string{}, phases: map[string]phase{}}
	s.pool = bk.GetAllBalances(ctx, authtypes.NewModuleAddress(providertypes.ConsumerRewardsPool))
	s.distrBal = bk.GetAllBalances(ctx, authtypes.NewModuleAddress(distrtypes.ModuleName))
	if fp, err := dk.FeePool.Get(ctx); err == nil {
		s.cp = fp.CommunityPool
	}
	s.tax, _ = dk.GetCommunityTax(ctx)
	for _, d := range pk.GetAllConsumerRewardDenoms(ctx) {
		s.denomsGlobal[d] = true
	}
	s.eligBlocks = pk.GetNumberOfEpochsToStartReceivingRewards(ctx) * pk.GetBlocksPerEpoch(ctx)
	// credits: raw store scan of prefix 55
	snap := snapStore(ctx, w.P.PApp.GetKey(providertypes.StoreKey))
	for k, v := range snap {
		if k[0] != 55 {
			continue
		}
		o := ownerOfKey([]byte(k), v)
		var a providertypes.ConsumerRewardsAllocation
		if a.Unmarshal(v) == nil {
			s.credits[o.owner] = s.credits[o.owner].Add(a.Rewards...)
		}
	}
	for _, id := range pk.GetAllConsumerIds(ctx) {
		ph := pk.GetConsumerPhase(ctx, id)
		s.phases[id] = ph
		if _, has := pk.GetConsumerClientId(ctx, id); !has {
			continue
		}
		if vs, err := pk.GetConsumerValSet(ctx, id); err == nil {
			s.sets[id] = vs
		}
		if ds, err := pk.GetAllowlistedRewardDenoms(ctx, id); err == nil {
			s.denomsCons[id] = map[string]bool{}
			for _, d := range ds {
				s.denomsCons[id][d] = true
			}
		}
		s.rates[id] = map[string]math.LegacyDec{}
		for _, a := range pk.GetAllCommissionRateValidators(ctx, id) {
			if r, ok := pk.GetConsumerCommissionRate(ctx, id, a); ok {
				s.rates[id][consHex(a.ToSdkConsAddr())] = r
			}
		}
	}
	for _, sv := range w.StakingSnapshot(ctx) {
		s.operOf[consHex(sv.ConsAddr)] = sv.Oper
		if v, err := w.P.PApp.StakingKeeper.GetValidator(ctx, sv.ValAddr); err == nil {
			s.valRate[sv.Oper] = v.Commission.Rate
		}
		if o, err := dk.GetValidatorOutstandingRewardsCoins(ctx, sv.ValAddr); err == nil {
			s.outstanding[sv.Oper] = o
		}
		if c, err := dk.GetValidatorAccumulatedCommission(ctx, sv.ValAddr); err == nil {
			s.commission[sv.Oper] = c.Commission
		}
	}
	return s
}

func (m *monC16) PostBegin(ctx sdk.Context) {
	m.begin = m.readProv(ctx)
	m.standing(m.begin, "post-begin")
	if m.prevEnd != nil {
		m.judgeAllocation(ctx)
	}
}

func (m *monC16) PreEnd(ctx sdk.Context) {
	m.preEnd = m.readProv(ctx)
	m.standing(m.preEnd, "pre-end")
}

func (m *monC16) PostEnd(ctx sdk.Context) {
	s := m.readProv(ctx)
	// membership tracking for the eligibility clause (from the stored sets, independent of the stored join heights)
	for id, vs := range s.sets {
		if m.joined[id] == nil {
			m.joined[id] = map[string]int64{}
		}
		now := map[string]bool{}
		for _, v := range vs {
			pc := consHex(v.ProviderConsAddr)
			now[pc] = true
			if _, ok := m.joined[id][pc]; !ok {
				m.joined[id][pc] = ctx.BlockHeight()
			}
		}
		for pc := range m.joined[id] {
			if !now[pc] {
				delete(m.joined[id], pc)
			}
		}
	}
	m.prevEnd = s
	m.standing(s, "post-end")
}

// standing: at no point is more credited than the pool holds.
func (m *monC16) standing(s *provRewardSnap, where string) {
	w := m.w
	total := sdk.DecCoins{}
	for _, c := range s.credits {
		total = total.Add(c...)
	}
	w.Eval("C16")
	for _, dc := range total {
		need := dc.Amount.Ceil().TruncateInt()
		if s.pool.AmountOf(dc.Denom).LT(need) {
			w.Violation("C16", "credits-exceed-pool:"+where, map[string]any{"denom": dc.Denom, "credits": dc.Amount.String(), "pool": s.pool.AmountOf(dc.Denom).String(), "height": s.height})
		}
	}
}

// judgeAllocation compares the BeginBlock reward allocation with the statement-level model.
func (m *monC16) judgeAllocation(ctx sdk.Context) {
	w := m.w
	a, b := m.prevEnd, m.begin
	h := ctx.BlockHeight()
	// boundary calls of this BeginBlock
	type allocCall struct{ oper, reward string }
	var allocs []allocCall
	for _, c := range w.Calls.InBlockCalls() {
		if c.Method == "distribution.AllocateTokensToValidator" && c.Scope == "rewards" {
			parts := strings.SplitN(c.Args, " ", 2)
			if len(parts) == 2 {
				allocs = append(allocs, allocCall{parts[0], parts[1]})
			}
		}
	}
	expectedPaid := map[string]sdk.DecCoins{} // operator -> expected reward from ICS in this block
	poolOut := sdk.NewCoins()
	ids := make([]string, 0, len(a.credits))
	for id := range a.credits {
		ids = append(ids, id)
	}
	sort.Strings(ids)
	for _, id := range ids {
		if b.phases[id] == phDeleted && a.phases[id] != phDeleted {
			continue // removed in this BeginBlock, before the allocation: its credit is simply left behind
		}
		if _, hasClient := a.sets[id]; !hasClient {
			// consumers without a client are not iterated: their credit must stay
			if !b.credits[id].Equal(a.credits[id]) {
				w.Violation("C16", "credit-of-consumer-without-client-changed", map[string]any{"consumer": id})
			}
			continue
		}
		for _, dc := range a.credits[id] {
			d := dc.Denom
			allowed := a.denomsGlobal[d] || a.denomsCons[id][d]
			after := b.credits[id].AmountOf(d)
			w.Eval("C16")
			if !allowed {
				w.Event("C16", "credits-in-unregistered-denoms-kept")
				if !after.Equal(dc.Amount) {
					w.Violation("C16", "credit-in-unregistered-denom-paid-out", map[string]any{"consumer": id, "denom": d, "before": dc.Amount.String(), "after": after.String()})
				}
				continue
			}
			if dc.Amount.IsZero() {
				continue
			}
			w.Event("C16", "payouts-judged")
			R := sdk.DecCoins{dc}
			// eligible members and their power
			var elig []providertypes.ConsensusValidator
			var total int64
			ineligible := 0
			for _, v := range a.sets[id] {
				pc := consHex(v.ProviderConsAddr)
				since, tracked := m.joined[id][pc]
				if tracked && h-since >= a.eligBlocks {
					elig = append(elig, v)
					total += v.Power
				} else {
					ineligible++
				}
			}
			if ineligible > 0 {
				w.Event("C16", "payouts-with-ineligible-members")
			}
			if total == 0 {
				toCP, rest := R.TruncateDecimal()
				poolOut = poolOut.Add(toCP...)
				if !after.Equal(rest.AmountOf(d)) {
					w.Violation("C16", "zero-power-payout-credit", map[string]any{"consumer": id, "denom": d, "after": after.String(), "want": rest.AmountOf(d).String()})
				}
				w.Case("C16", "payout:no-eligible-validator")
				continue
			}
			vr := R.MulDecTruncate(math.LegacyOneDec().Sub(a.tax))
			remaining := R.Sub(vr)
			vTrunc, vChange := vr.TruncateDecimal()
			rTrunc, rChange := remaining.TruncateDecimal()
			poolOut = poolOut.Add(vTrunc...).Add(rTrunc...)
			wantCredit := vChange.Add(rChange...).AmountOf(d)
			if !after.Equal(wantCredit) {
				w.Violation("C16", "credit-after-payout", map[string]any{"consumer": id, "denom": d, "before": dc.Amount.String(), "after": after.String(), "want": wantCredit.String()})
			}
			tokens := sdk.NewDecCoinsFromCoins(vTrunc...)
			paid := sdk.DecCoins{}
			for _, v := range elig {
				frac := math.LegacyNewDec(v.Power).QuoTruncate(math.LegacyNewDec(total))
				share := tokens.MulDecTruncate(frac)
				oper := a.operOf[consHex(v.ProviderConsAddr)]
				expectedPaid[oper] = expectedPaid[oper].Add(share...)
				paid = paid.Add(share...)
				// commission rate: the per-consumer rate if set, else the validator's own
				rate, custom := a.rates[id][consHex(v.ProviderConsAddr)]
				if !custom {
					rate = a.valRate[oper]
				}
				wantComm := share.MulDec(rate)
				gotComm := b.commission[oper].Sub(a.commission[oper])
				_ = wantComm
				_ = gotComm
			}
			dust := sdk.NewDecCoinsFromCoins(vTrunc...).Sub(paid)
			if !dust.IsZero() {
				w.Event("C16", "payouts-with-truncation-dust")
			}
			w.Case("C16", fmt.Sprintf("payout eligible=%s ineligible=%v amount=%s customrate=%v", bucket(len(elig)), ineligible > 0, magnitude(vTrunc.AmountOf(d)), len(a.rates[id]) > 0))
			w.Sample("C16", map[string]any{"height": h, "consumer": id, "denom": d, "credit": dc.Amount.String(), "to_validators": vTrunc.String(), "to_community_pool": rTrunc.String(), "eligible": len(elig), "ineligible": ineligible, "dust": dust.String()})
		}
	}
	// pool and distribution-module balances
	for _, c := range poolOut {
		gotOut := a.pool.AmountOf(c.Denom).Sub(b.pool.AmountOf(c.Denom))
		if !gotOut.Equal(c.Amount) {
			w.Violation("C16", "pool-outflow-differs-from-model", map[string]any{"denom": c.Denom, "got": gotOut.String(), "want": c.Amount.String(), "height": h})
		}
		gotIn := b.distrBal.AmountOf(c.Denom).Sub(a.distrBal.AmountOf(c.Denom))
		if !gotIn.Equal(c.Amount) {
			w.Violation("C16", "distribution-account-inflow-differs-from-pool-outflow", map[string]any{"denom": c.Denom, "got": gotIn.String(), "want": c.Amount.String(), "height": h})
		}
	}
	// who was paid: exactly the expected validators, exactly the expected amounts (reward denoms are IBC denoms nothing else touches)
	paidByCall := map[string]sdk.DecCoins{}
	for _, c := range allocs {
		dcs, err := sdk.ParseDecCoins(c.reward)
		if err != nil {
			continue
		}
		paidByCall[c.oper] = paidByCall[c.oper].Add(dcs...)
	}
	for oper, want := range expectedPaid {
		got := paidByCall[oper]
		if !got.Equal(want) {
			w.Violation("C16", "validator-payout-differs-from-model", map[string]any{"validator": oper, "got": got.String(), "want": want.String(), "height": h})
		}
		// and it shows up in the validator's outstanding rewards
		for _, dc := range want {
			delta := b.outstanding[oper].AmountOf(dc.Denom).Sub(a.outstanding[oper].AmountOf(dc.Denom))
			if !delta.Equal(dc.Amount) {
				w.Violation("C16", "outstanding-rewards-delta", map[string]any{"validator": oper, "denom": dc.Denom, "got": delta.String(), "want": dc.Amount.String()})
			}
		}
	}
	for oper, got := range paidByCall {
		if _, ok := expectedPaid[oper]; !ok && !got.IsZero() {
			w.Violation("C16", "payout-to-validator-not-eligible", map[string]any{"validator": oper, "got": got.String(), "height": h})
		}
	}
	// commission: per-consumer rate if set
	m.judgeCommission(a, b, expectedPaid)
}

func (m *monC16) judgeCommission(a, b *provRewardSnap, expectedPaid map[string]sdk.DecCoins) {
	w := m.w
	// recompute per validator the commission it should have accrued from ICS payouts in this block
	// operator -> denom -> amount; zero amounts are kept (an explicit zero rate means "no commission", which has to be observed too)
	want := map[string]map[string]math.LegacyDec{}
	h := b.height
	for id, credits := range a.credits {
		if _, hasClient := a.sets[id]; !hasClient || (b.phases[id] == phDeleted && a.phases[id] != phDeleted) {
			continue
		}
		for _, dc := range credits {
			d := dc.Denom
			if !(a.denomsGlobal[d] || a.denomsCons[id][d]) || dc.Amount.IsZero() {
				continue
			}
			var elig []providertypes.ConsensusValidator
			var total int64
			for _, v := range a.sets[id] {
				if since, ok := m.joined[id][consHex(v.ProviderConsAddr)]; ok && h-since >= a.eligBlocks {
					elig = append(elig, v)
					total += v.Power
				}
			}
			if total == 0 {
				continue
			}
			vTrunc, _ := sdk.DecCoins{dc}.MulDecTruncate(math.LegacyOneDec().Sub(a.tax)).TruncateDecimal()
			tokens := sdk.NewDecCoinsFromCoins(vTrunc...)
			for _, v := range elig {
				share := tokens.MulDecTruncate(math.LegacyNewDec(v.Power).QuoTruncate(math.LegacyNewDec(total)))
				oper := a.operOf[consHex(v.ProviderConsAddr)]
				rate, custom := a.rates[id][consHex(v.ProviderConsAddr)]
				if !custom {
					rate = a.valRate[oper]
				}
				if want[oper] == nil {
					want[oper] = map[string]math.LegacyDec{}
				}
				cur, ok := want[oper][d]
				if !ok {
					cur = math.LegacyZeroDec()
				}
				want[oper][d] = cur.Add(share.AmountOf(d).Mul(rate))
				if custom && rate.IsZero() {
					w.Event("C16", "payouts-under-an-explicit-zero-commission-rate")
				}
			}
		}
	}
	for oper, wc := range want {
		for denom, amt := range wc {
			got := b.commission[oper].AmountOf(denom).Sub(a.commission[oper].AmountOf(denom))
			w.Eval("C16")
			w.Event("C16", "commissions-checked")
			if !got.Equal(amt) {
				w.Violation("C16", "commission-not-per-consumer-rate", map[string]any{"validator": oper, "denom": denom, "got": got.String(), "want": amt.String()})
			}
		}
	}
}

func (m *monC16) AfterBlock(c *Chain, req *abci.RequestFinalizeBlock, res *abci.ResponseFinalizeBlock, txs []TxOutcome) {
	if !c.IsProvider {
		m.afterConsumer(c, req, res, txs)
		return
	}
	w := m.w
	if m.begin == nil || m.preEnd == nil {
		return
	}
	pool := authtypes.NewModuleAddress(providertypes.ConsumerRewardsPool).String()
	// rewards received in this block
	recvCredit := map[string]sdk.DecCoins{}
	recvPool := sdk.NewCoins()
	for _, o := range txs {
		if !o.OK() {
			continue
		}
		for _, msg := range o.Spec.Msgs {
			rp, ok := msg.(*channeltypes.MsgRecvPacket)
			if !ok || rp.Packet.DestinationPort != "transfer" {
				continue
			}
			var d transfertypes.FungibleTokenPacketData
			if err := transfertypes.ModuleCdc.UnmarshalJSON(rp.Packet.Data, &d); err != nil || d.Receiver != pool {
				continue
			}
			if acks := parseAcks(o.Result.Events); len(acks) > 0 {
				if _, isErr, ok := decodeAck(acks[0].Ack); ok && isErr {
					continue
				}
			}
			var l *Link
			for _, ll := range w.Relay.Links {
				if ll.XferProv == rp.Packet.DestinationChannel {
					l = ll
				}
			}
			if l == nil {
				continue
			}
			a, _ := math.NewIntFromString(d.Amount)
			pd := l.ProviderDenom(d.Denom)
			if isUserTransfer(d) {
				// the consumer to credit is the one the memo names (that is how the protocol identifies the sender); without a reward
				// memo it is the consumer of the channel's client; a memo naming no known consumer leaves the tokens uncredited
				to := l.CID
				if rm, err := ccv.GetRewardMemoFromTransferMemo(d.Memo); err == nil {
					to = rm.ConsumerId
					if _, err := w.P.PApp.ProviderKeeper.GetConsumerChainId(w.P.Ctx(), to); err != nil {
						to = ""
					}
				}
				w.Event("C16", "user-transfers-into-the-rewards-pool")
				if to != l.CID {
					w.Event("C16", "user-transfers-naming-another-or-no-consumer")
				}
				if to != "" {
					recvCredit[to] = recvCredit[to].Add(sdk.NewDecCoin(pd, a))
				}
				recvPool = recvPool.Add(sdk.NewCoin(pd, a))
				continue
			}
			recvCredit[l.CID] = recvCredit[l.CID].Add(sdk.NewDecCoin(pd, a))
			tallyAdd(m.creditedFor, l.CID, d.Denom, a)
			w.Infof("C16 transfer received consumer=%s seq=%d %s%s", l.CID, rp.Packet.Sequence, d.Amount, d.Denom)
			recvPool = recvPool.Add(sdk.NewCoin(pd, a))
			w.Event("C16", "reward-transfers-received")
		}
	}
	if !recvPool.IsZero() {
		w.Eval("C16")
		for id, add := range recvCredit {
			got := m.preEnd.credits[id].Sub(m.begin.credits[id])
			if !got.Equal(add) {
				w.Violation("C16", "credit-differs-from-received", map[string]any{"consumer": id, "credited": got.String(), "received": add.String(), "height": req.Height})
			}
		}
		for id := range m.preEnd.credits {
			if _, ok := recvCredit[id]; !ok && !m.preEnd.credits[id].Equal(m.begin.credits[id]) {
				w.Violation("C16", "credit-of-other-consumer-changed", map[string]any{"consumer": id, "height": req.Height})
			}
		}
		for _, c := range recvPool {
			got := m.preEnd.pool.AmountOf(c.Denom).Sub(m.begin.pool.AmountOf(c.Denom))
			if !got.Equal(c.Amount) {
				w.Violation("C16", "pool-inflow-differs-from-received", map[string]any{"denom": c.Denom, "got": got.String(), "want": c.Amount.String()})
			}
		}
	}
}

// isUserTransfer: a transfer into the rewards pool that was not sent by the consumer module's own account (an ordinary user of the
// consumer chain can send one, with any memo). It is not part of the consumer's reward stream.
func isUserTransfer(d transfertypes.FungibleTokenPacketData) bool {
	return d.Sender != authtypes.NewModuleAddress(consumertypes.ConsumerToSendToProviderName).String()
}

func tallyAdd(t map[string]map[string]math.Int, id, denom string, a math.Int) {
	if t[id] == nil {
		t[id] = map[string]math.Int{}
	}
	cur, ok := t[id][denom]
	if !ok {
		cur = math.ZeroInt()
	}
	t[id][denom] = cur.Add(a)
}

// tallyRefunds: reward transfers that timed out (or were answered with an error) are refunded on the consumer.
func (m *monC16) tallyRefunds(c *Chain, txs []TxOutcome) {
	if m.refunded == nil {
		m.refunded = map[string]map[string]math.Int{}
	}
	for _, o := range txs {
		if !o.OK() {
			continue
		}
		for _, msg := range o.Spec.Msgs {
			var pkt *channeltypes.Packet
			switch t := msg.(type) {
			case *channeltypes.MsgTimeout:
				if t.Packet.SourcePort == "transfer" {
					pkt = &t.Packet
				}
			case *channeltypes.MsgAcknowledgement:
				if t.Packet.SourcePort == "transfer" {
					if _, isErr, ok := decodeAck(t.Acknowledgement); ok && isErr {
						pkt = &t.Packet
					}
				}
			}
			if pkt == nil {
				continue
			}
			var d transfertypes.FungibleTokenPacketData
			if err := transfertypes.ModuleCdc.UnmarshalJSON(pkt.Data, &d); err != nil {
				continue
			}
			if isUserTransfer(d) {
				continue
			}
			a, _ := math.NewIntFromString(d.Amount)
			tallyAdd(m.refunded, c.ConsumerID, d.Denom, a)
			m.w.Infof("C16 transfer refunded consumer=%s seq=%d %s%s", c.ConsumerID, pkt.Sequence, d.Amount, d.Denom)
			m.w.Event("C16", "reward-transfers-refunded")
		}
	}
}

// Final: cross-chain conservation per consumer and denom: sent = credited + refunded + still in flight.
func (m *monC16) Final() {
	w := m.w
	if w.st("_tx").Events["relayer-gave-up"] > 0 {
		return // the relayer abandoned a packet: the equation is not decidable for this world
	}
	for id, byDenom := range m.sentByConsumer {
		l := w.Relay.Links[id]
		if l == nil {
			continue
		}
		if l.C != nil && l.C.Halted {
			// the block in which a consensus engine would reject the validator updates is the chain's last one; the monitors do not
			// see its transactions (refunds of timed-out transfers among them), so the equation is not decidable for this consumer
			w.Event("C16", "cross-chain-conservation-not-decidable-for-a-halted-consumer")
			continue
		}
		inflight := map[string]math.Int{}
		w.Infof("C16 final: consumer=%s toProv=%d timeouts=%d acksToCons=%d", id, len(l.ToProv), len(l.Timeouts), len(l.AcksToCons))
		for _, q := range [][]*InFlight{l.ToProv, l.Timeouts} {
			for _, f := range q {
				if f.Done || f.Ack != nil || f.Packet.SourcePort != "transfer" {
					continue
				}
				var d transfertypes.FungibleTokenPacketData
				if transfertypes.ModuleCdc.UnmarshalJSON(f.Packet.Data, &d) == nil && !isUserTransfer(d) {
					a, _ := math.NewIntFromString(d.Amount)
					cur, ok := inflight[d.Denom]
					if !ok {
						cur = math.ZeroInt()
					}
					inflight[d.Denom] = cur.Add(a)
				}
			}
		}
		for denom, sent := range byDenom {
			get := func(t map[string]map[string]math.Int) math.Int {
				if v, ok := t[id][denom]; ok {
					return v
				}
				return math.ZeroInt()
			}
			fl, ok := inflight[denom]
			if !ok {
				fl = math.ZeroInt()
			}
			w.Eval("C16")
			w.Event("C16", "cross-chain-conservation-checks")
			if !sent.Equal(get(m.creditedFor).Add(get(m.refunded)).Add(fl)) {
				w.Violation("C16", "cross-chain-conservation", map[string]any{"consumer": id, "denom": denom, "sent": sent.String(), "credited": get(m.creditedFor).String(), "refunded": get(m.refunded).String(), "in_flight": fl.String()})
			}
		}
	}
}
