package sim

import (
	sdkmath "cosmossdk.io/math"
	"fmt"
	"math/big"
	"sort"
	"strings"

	abci "github.com/cometbft/cometbft/abci/types"

	sdk "github.com/cosmos/cosmos-sdk/types"

	providertypes "github.com/cosmos/interchain-security/v7/x/ccv/provider/types"
)

// monValset decides C02 (eligibility, power, key), C03 (Top-N threshold, auto opt-in, opt-out rule)
// and the composition half of C04 (set cap / priority / power cap inside the real computation).
type monValset struct {
	w         *World
	prevPhase map[string]phase
	// optedCause[consumer][consHex] = why the store may legitimately say "opted in"
	optedCause map[string]map[string]string
	// snapshot taken at PostBegin for judging MsgOptOut results of this block
	topnAtBegin map[string]topnSnap
	lastPowerAt map[string]int64 // operator -> last power at PostBegin
	phaseAt     map[string]phase
	suspects    []suspect
	// powers (staking last power) of the provider's recorded consensus set and the active-set size parameter at PostBegin:
	// what a Top-N change executed later in this block (a governance proposal in gov's EndBlocker, which runs before the
	// provider's) has to compute the new threshold from
	activePowersAtBegin []int64
	maxActiveAtBegin    int64
	activePowersPreEnd  []int64
	maxActivePreEnd     int64
}

// topNThreshold is the statement's m: the smallest power such that validators with at least that power hold >= N percent.
func topNThreshold(powers []int64, n uint32) (int64, bool) {
	ps := append([]int64(nil), powers...)
	sort.Slice(ps, func(i, j int) bool { return ps[i] > ps[j] })
	var total, cum int64
	for _, p := range ps {
		total += p
	}
	for i, p := range ps {
		cum += p
		if i+1 < len(ps) && ps[i+1] == p {
			continue // take the whole tie group
		}
		if cum*100 >= int64(n)*total {
			return p, true
		}
	}
	return 0, false
}

type suspect struct {
	id, cons string
	details  map[string]any
}

type topnSnap struct {
	TopN uint32
	M    int64
	HasM bool
}

func init() {
	registerMonitor(func(w *World) Monitor {
		return &monValset{w: w, prevPhase: map[string]phase{}, optedCause: map[string]map[string]string{}}
	})
}

func (m *monValset) Name() string { return "valset" }

func (m *monValset) cause(id string) map[string]string {
	c, ok := m.optedCause[id]
	if !ok {
		c = map[string]string{}
		m.optedCause[id] = c
	}
	return c
}

func (m *monValset) PostBegin(ctx sdk.Context) {
	w := m.w
	pk := w.P.PApp.ProviderKeeper
	m.topnAtBegin = map[string]topnSnap{}
	m.phaseAt = map[string]phase{}
	m.lastPowerAt = map[string]int64{}
	recAtBegin := map[string]bool{}
	if rec, err := pk.GetLastProviderConsensusValSet(ctx); err == nil {
		for _, r := range rec {
			recAtBegin[consHex(r.ProviderConsAddr)] = true
		}
	}
	m.activePowersAtBegin = nil
	m.maxActiveAtBegin = pk.GetMaxProviderConsensusValidators(ctx)
	for _, sv := range w.StakingSnapshot(ctx) {
		m.lastPowerAt[sv.Oper] = sv.LastPower
		if recAtBegin[consHex(sv.ConsAddr)] {
			m.activePowersAtBegin = append(m.activePowersAtBegin, sv.LastPower)
		}
	}
	for _, id := range pk.GetAllConsumerIds(ctx) {
		ph := pk.GetConsumerPhase(ctx, id)
		m.phaseAt[id] = ph
		if ph == phLaunch && m.prevPhase[id] != phLaunch {
			// launched in this BeginBlock: the initial set was just computed
			m.checkConsumerSet(ctx, id, true)
		}
		if ps, err := pk.GetConsumerPowerShapingParameters(ctx, id); err == nil {
			mp, has := pk.GetMinimumPowerInTopN(ctx, id)
			m.topnAtBegin[id] = topnSnap{TopN: ps.Top_N, M: mp, HasM: has}
		}
		m.prevPhase[id] = ph
		if ph != phDeleted && ph != providertypes.CONSUMER_PHASE_UNSPECIFIED {
			m.checkListIndexes(ctx, id)
		}
	}
}

// checkListIndexes: the per-validator lookups the set computation uses (allowlist, denylist, priority list) must be exactly
// the lists configured in the consumer's stored power-shaping parameters.
func (m *monValset) checkListIndexes(ctx sdk.Context, id string) {
	w := m.w
	pk := w.P.PApp.ProviderKeeper
	ps, err := pk.GetConsumerPowerShapingParameters(ctx, id)
	if err != nil {
		return
	}
	cmp := func(prop, what string, configured []string, index []providertypes.ProviderConsAddress) {
		want, got := map[string]bool{}, map[string]bool{}
		for _, a := range configured {
			if ca, err := sdk.ConsAddressFromBech32(a); err == nil {
				want[consHex(ca)] = true
			}
		}
		for _, a := range index {
			got[consHex(a.ToSdkConsAddr())] = true
		}
		if len(want) == 0 && len(got) == 0 {
			return
		}
		w.Eval(prop)
		w.Event(prop, "list-indexes-compared-with-configured-lists")
		same := len(want) == len(got)
		for k := range want {
			if !got[k] {
				same = false
			}
		}
		if !same {
			w.Violation(prop, "list-index-differs-from-configured-list:"+what, map[string]any{"consumer": id, "configured": keysOf(want), "index": keysOf(got)})
		}
	}
	cmp("C02", "allowlist", ps.Allowlist, pk.GetAllowList(ctx, id))
	cmp("C02", "denylist", ps.Denylist, pk.GetDenyList(ctx, id))
	cmp("C04", "prioritylist", ps.Prioritylist, pk.GetPriorityList(ctx, id))
}

// PreEnd: what a Top-N change executed in this block's gov EndBlocker will see as "active validators". The provider takes the
// first M of x/staking's *live* power index (current tokens, already moved by this block's transactions) and reads their *last*
// powers - mid-block that is a hybrid of the previous and the next active set (documented behaviour of GetLastBondedValidatorsUtil).
func (m *monValset) PreEnd(ctx sdk.Context) {
	pk := m.w.P.PApp.ProviderKeeper
	sk := m.w.P.PApp.StakingKeeper
	m.activePowersPreEnd = nil
	m.maxActivePreEnd = pk.GetMaxProviderConsensusValidators(ctx)
	vals, err := sk.GetBondedValidatorsByPower(ctx)
	if err != nil {
		return
	}
	for i, v := range vals {
		if int64(i) >= m.maxActivePreEnd {
			break
		}
		if va, err := sdk.ValAddressFromBech32(v.GetOperator()); err == nil {
			lp, _ := sk.GetLastValidatorPower(ctx, va)
			m.activePowersPreEnd = append(m.activePowersPreEnd, lp)
		}
	}
}

func (m *monValset) PostEnd(ctx sdk.Context) {
	w := m.w
	pk := w.P.PApp.ProviderKeeper
	epoch := pk.BlocksUntilNextEpoch(ctx) == 0
	for _, id := range pk.GetAllConsumerIds(ctx) {
		ph := pk.GetConsumerPhase(ctx, id)
		if epoch && ph == phLaunch && m.prevPhase[id] == phLaunch {
			m.checkConsumerSet(ctx, id, false)
		} else if ph != phDeleted {
			m.checkTopNChange(ctx, id)
		}
		m.prevPhase[id] = ph
	}
}

// checkTopNChange: when a consumer's Top-N value changed in this block (and this block's EndBlock did not recompute the set),
// the stored threshold must already be the one for the NEW value - computed over the active set the provider had recorded
// when the block began - or be gone when the consumer stopped being a Top-N consumer. Opt-outs are judged against it until
// the next epoch.
func (m *monValset) checkTopNChange(ctx sdk.Context, id string) {
	w := m.w
	pk := w.P.PApp.ProviderKeeper
	before, ok := m.topnAtBegin[id]
	if !ok {
		return
	}
	ps, err := pk.GetConsumerPowerShapingParameters(ctx, id)
	if err != nil || ps.Top_N == before.TopN {
		return
	}
	if pk.GetMaxProviderConsensusValidators(ctx) != m.maxActivePreEnd {
		w.Event("C03", "topn-changes-not-judged-because-the-active-set-size-changed-in-the-same-block")
		return
	}
	mStored, hasM := pk.GetMinimumPowerInTopN(ctx, id)
	w.Eval("C03")
	w.Event("C03", "topn-changes-judged")
	w.Case("C03", fmt.Sprintf("topn-change %s->%s", bucketN(before.TopN), bucketN(ps.Top_N)))
	if ps.Top_N == 0 {
		if hasM {
			w.Violation("C03", "threshold-kept-after-topn-removed", map[string]any{"consumer": id, "stored": mStored, "old_N": before.TopN})
		}
		return
	}
	// the set recorded at the start of the block when no transaction of this block moved the power index; otherwise the
	// mid-block view described at PreEnd
	powers := m.activePowersPreEnd
	a, b := append([]int64(nil), m.activePowersAtBegin...), append([]int64(nil), m.activePowersPreEnd...)
	sort.Slice(a, func(i, j int) bool { return a[i] < a[j] })
	sort.Slice(b, func(i, j int) bool { return b[i] < b[j] })
	if fmt.Sprint(a) != fmt.Sprint(b) {
		w.Event("C03", "topn-changes-judged-against-the-mid-block-power-index")
	}
	mStar, ok := topNThreshold(powers, ps.Top_N)
	if ok && (!hasM || mStored != mStar) {
		w.Violation("C03", "stored-threshold-differs:topn-change", map[string]any{"consumer": id, "old_N": before.TopN, "N": ps.Top_N, "stored": mStored, "has": hasM,
			"expected": mStar, "active_powers": powers, "recorded_at_begin": m.activePowersAtBegin})
	}
}

func bucketN(n uint32) string {
	switch {
	case n == 0:
		return "0"
	case n < 67:
		return "50-66"
	case n < 100:
		return "67-99"
	}
	return "100"
}

// AfterBlock folds opt-in/opt-out tx results into the shadow and judges opt-out outcomes (C03).
func (m *monValset) AfterBlock(c *Chain, req *abci.RequestFinalizeBlock, res *abci.ResponseFinalizeBlock, txs []TxOutcome) {
	if !c.IsProvider {
		return
	}
	w := m.w
	for _, o := range txs {
		for _, msg := range o.Spec.Msgs {
			switch t := msg.(type) {
			case *providertypes.MsgOptIn:
				if o.OK() {
					if v := w.valByOper(t.ProviderAddr); v != nil {
						m.cause(t.ConsumerId)[consHex(v.ConsAddr())] = "self"
					}
				}
			case *providertypes.MsgOptOut:
				v := w.valByOper(t.ProviderAddr)
				if v == nil {
					continue
				}
				if o.OK() {
					delete(m.cause(t.ConsumerId), consHex(v.ConsAddr()))
				}
				snap, known := m.topnAtBegin[t.ConsumerId]
				if !known || m.phaseAt[t.ConsumerId] != phLaunch {
					if o.OK() && known {
						// the phase may have changed inside this block (stop) - opt-out of a non-launched consumer must fail
						if ph := w.Phase(t.ConsumerId); ph != phLaunch && m.phaseAt[t.ConsumerId] != phLaunch {
							w.Violation("C03", "opt-out-accepted-for-non-launched-consumer", map[string]any{"consumer": t.ConsumerId, "phase": ph.String()})
						}
					}
					continue
				}
				if w.Phase(t.ConsumerId) != phLaunch {
					continue // stopped within this block: order relative to the opt-out unknown
				}
				power := m.lastPowerAt[t.ProviderAddr]
				w.Eval("C03")
				mustFail := snap.TopN > 0 && snap.HasM && power >= snap.M
				side := "below"
				if mustFail {
					side = "at-or-above"
				}
				if snap.TopN > 0 {
					w.Event("C03", "optout-attempt-topn:"+side)
					w.Case("C03", fmt.Sprintf("optout:%s N=%d eq=%v", side, snap.TopN, power == snap.M))
				}
				if mustFail && o.OK() {
					w.Violation("C03", "opt-out-accepted-at-or-above-threshold", map[string]any{"consumer": t.ConsumerId, "val": w.valName(v.ConsAddr()), "power": power, "m": snap.M})
				}
				if !o.OK() && strings.Contains(o.Result.Log, "validator does not exist") {
					// the operator's validator was removed from x/staking: nothing to opt out, not a threshold decision
					w.Event("C03", "optout-attempts-of-removed-validators")
					continue
				}
				if !mustFail && !o.OK() && snap.TopN > 0 && snap.HasM {
					w.Violation("C03", "opt-out-rejected-below-threshold", map[string]any{"consumer": t.ConsumerId, "val": w.valName(v.ConsAddr()), "power": power, "m": snap.M, "log": o.Result.Log})
				}
			}
		}
	}
	m.resolveSuspects()
}

func (m *monValset) resolveSuspects() {
	for _, s := range m.suspects {
		if _, ok := m.cause(s.id)[s.cons]; !ok {
			m.w.Violation("C03", "opted-in-without-cause", s.details)
		}
	}
	m.suspects = nil
}

func (w *World) valByOper(oper string) *Val {
	for _, v := range w.Vals {
		if v.ValAddr.String() == oper {
			return v
		}
	}
	return nil
}

type cand struct {
	sv      SVal
	active  bool
	opted   bool
	prio    bool
	inSet   bool
	setPow  int64
	elig    bool
	reasons []string
}

// checkConsumerSet evaluates the stored consumer validator set right after the provider computed it.
func (m *monValset) checkConsumerSet(ctx sdk.Context, id string, atLaunch bool) {
	w := m.w
	pk := w.P.PApp.ProviderKeeper
	ps, err := pk.GetConsumerPowerShapingParameters(ctx, id)
	if err != nil {
		return
	}
	set, err := pk.GetConsumerValSet(ctx, id)
	if err != nil {
		w.Violation("C02", "stored-set-unreadable", map[string]any{"consumer": id, "error": err.Error()})
		return
	}
	rec, err := pk.GetLastProviderConsensusValSet(ctx)
	if err != nil {
		return
	}
	active := map[string]bool{}
	for _, r := range rec {
		active[consHex(r.ProviderConsAddr)] = true
	}
	when := "epoch"
	if atLaunch {
		when = "launch"
	}
	snap := w.StakingSnapshot(ctx)
	allowEmpty, denyEmpty := pk.IsAllowlistEmpty(ctx, id), pk.IsDenylistEmpty(ctx, id)
	mStored, hasM := pk.GetMinimumPowerInTopN(ctx, id)

	// ---------- C03: threshold from the statement, exact integer arithmetic over the active set
	if ps.Top_N > 0 {
		var powers []int64
		var total int64
		for _, sv := range snap {
			if active[consHex(sv.ConsAddr)] {
				powers = append(powers, sv.LastPower)
				total += sv.LastPower
			}
		}
		mStar, ok := topNThreshold(powers, ps.Top_N)
		_ = total
		w.Eval("C03")
		w.Event("C03", "threshold-evaluations")
		ties := 0
		for _, p := range powers {
			if p == mStar {
				ties++
			}
		}
		w.Case("C03", fmt.Sprintf("threshold N=%d ties=%d n=%d %s", ps.Top_N, ties, len(powers), when))
		if ok && (!hasM || mStored != mStar) {
			w.Violation("C03", "stored-threshold-differs:"+when, map[string]any{"consumer": id, "N": ps.Top_N, "stored": mStored, "has": hasM, "expected": mStar, "active_powers": powers})
		}
		w.Sample("C03", map[string]any{"consumer": id, "N": ps.Top_N, "active_powers": powers, "m": mStored, "when": when})
	}

	inSet := map[string]providertypes.ConsensusValidator{}
	for _, v := range set {
		inSet[consHex(v.ProviderConsAddr)] = v
	}
	var cands []*cand
	byCons := map[string]*cand{}
	causes := m.cause(id)
	for _, sv := range snap {
		ch := consHex(sv.ConsAddr)
		pa := providertypes.NewProviderConsAddress(sv.ConsAddr)
		c := &cand{sv: sv, active: active[ch], opted: pk.IsOptedIn(ctx, id, pa), prio: pk.IsPrioritylisted(ctx, id, pa)}
		if v, ok := inSet[ch]; ok {
			c.inSet, c.setPow = true, v.Power
		}
		// eligibility from the statement
		c.elig = true
		no := func(r string) { c.elig = false; c.reasons = append(c.reasons, r) }
		if !sv.Bonded() {
			no("not-bonded")
		}
		if sv.Jailed {
			no("jailed")
		}
		required := ps.Top_N > 0 && hasM && sv.LastPower >= mStored
		if !c.opted && !required {
			no("not-opted-in")
		}
		if !allowEmpty && !pk.IsAllowlisted(ctx, id, pa) {
			no("not-allowlisted")
		}
		if !denyEmpty && pk.IsDenylisted(ctx, id, pa) {
			no("denylisted")
		}
		if ps.MinStake > 0 && (!sv.Bonded() || sv.Tokens.LT(sdkIntU(ps.MinStake))) {
			no("below-min-stake")
		}
		if !ps.AllowInactiveVals && !c.active {
			no("inactive")
		}
		// C03: opted-in entries must have a cause (self opt-in, or automatic because active and >= m at some epoch)
		if ps.Top_N > 0 && hasM && c.active && sv.LastPower >= mStored {
			if !c.opted {
				w.Violation("C03", "topn-validator-not-auto-opted-in:"+when, map[string]any{"consumer": id, "val": w.valName(sv.ConsAddr), "power": sv.LastPower, "m": mStored})
			}
			if _, ok := causes[ch]; !ok {
				causes[ch] = "auto"
			}
		}
		if c.opted {
			if _, ok := causes[ch]; !ok && ps.Top_N > 0 {
				// resolved in AfterBlock, once the opt-in transactions of this very block are known
				m.suspects = append(m.suspects, suspect{id: id, cons: ch, details: map[string]any{"consumer": id, "val": w.valName(sv.ConsAddr), "power": sv.LastPower, "m": mStored, "active": c.active, "when": when}})
			}
		}
		cands = append(cands, c)
		byCons[ch] = c
	}

	// ---------- C02 soundness: every member is eligible, right key, right power
	w.Eval("C02")
	w.Event("C02", "set-evaluations:"+when)
	capK := int(ps.ValidatorSetCap)
	if ps.Top_N > 0 {
		capK = 0
	}
	tieAtM := false
	for _, v := range set {
		ch := consHex(v.ProviderConsAddr)
		c, ok := byCons[ch]
		if !ok {
			w.Violation("C02", "member-not-a-staking-validator:"+when, map[string]any{"consumer": id, "cons": ch})
			continue
		}
		if !c.elig {
			w.Violation("C02", "ineligible-member:"+when+":"+c.reasons[0], map[string]any{"consumer": id, "val": w.valName(c.sv.ConsAddr), "reasons": c.reasons,
				"power": c.sv.LastPower, "tokens": c.sv.Tokens.String(), "allow_inactive": ps.AllowInactiveVals, "topN": ps.Top_N})
		}
		if ps.ValidatorsPowerCap == 0 && v.Power != c.sv.LastPower {
			w.Violation("C02", "power-differs-from-provider-power:"+when, map[string]any{"consumer": id, "val": w.valName(c.sv.ConsAddr), "consumer_power": v.Power, "provider_power": c.sv.LastPower})
		}
		wantKey := c.sv.PubKey
		if k, found := pk.GetValidatorConsumerPubKey(ctx, id, providertypes.NewProviderConsAddress(c.sv.ConsAddr)); found {
			wantKey = k
		}
		if pkStr(wantKey) != pkStr(*v.PublicKey) {
			w.Violation("C02", "wrong-consumer-key:"+when, map[string]any{"consumer": id, "val": w.valName(c.sv.ConsAddr)})
		}
		if v.Power <= 0 {
			w.Violation("C02", "non-positive-power-member:"+when, map[string]any{"consumer": id, "val": w.valName(c.sv.ConsAddr), "power": v.Power})
		}
	}
	// completeness (no set cap applies)
	var eligible []*cand
	for _, c := range cands {
		if c.elig {
			eligible = append(eligible, c)
		}
	}
	if capK == 0 {
		for _, c := range eligible {
			if !c.inSet {
				w.Violation("C02", "eligible-validator-missing:"+when, map[string]any{"consumer": id, "val": w.valName(c.sv.ConsAddr), "power": c.sv.LastPower,
					"tokens": c.sv.Tokens.String(), "active": c.active, "allow_inactive": ps.AllowInactiveVals, "topN": ps.Top_N})
			}
		}
	}
	// C03: on a Top-N consumer every active validator with power >= m validates, unless the allowlist, the denylist or the
	// minimum stake excludes it (a validator-set cap does not apply to Top-N consumers)
	if ps.Top_N > 0 && hasM {
		for _, c := range cands {
			if !c.active || c.sv.LastPower < mStored || !c.sv.Bonded() || c.sv.Jailed {
				continue
			}
			w.Eval("C03")
			w.Event("C03", "required-validators-checked")
			if c.elig && !c.inSet {
				w.Violation("C03", "required-topn-validator-not-in-set:"+when, map[string]any{"consumer": id, "val": w.valName(c.sv.ConsAddr), "power": c.sv.LastPower, "m": mStored,
					"set_cap": ps.ValidatorSetCap, "set_size": len(set)})
			}
		}
	}
	// tie at the boundary of the provider's consensus set (interesting case for the active filter)
	var minActive, maxInactive int64 = -1, -1
	for _, c := range cands {
		if !c.sv.Bonded() {
			continue
		}
		if c.active && (minActive < 0 || c.sv.LastPower < minActive) {
			minActive = c.sv.LastPower
		}
		if !c.active && c.sv.LastPower > maxInactive {
			maxInactive = c.sv.LastPower
		}
	}
	tieAtM = minActive >= 0 && minActive == maxInactive
	if tieAtM {
		w.Event("C02", "evaluations-with-tie-at-active-boundary")
	}
	w.Case("C02", fmt.Sprintf("%s topN=%v inactiveOK=%v allow=%v deny=%v minstake=%v cap=%v pcap=%v tieAtM=%v",
		when, ps.Top_N > 0, ps.AllowInactiveVals, !allowEmpty, !denyEmpty, ps.MinStake > 0, capK > 0, ps.ValidatorsPowerCap > 0, tieAtM))
	w.Sample("C02", map[string]any{"consumer": id, "when": when, "set_size": len(set), "eligible": len(eligible), "topN": ps.Top_N, "cap": capK})

	// ---------- C04 composition: set cap + priority
	if capK > 0 {
		w.Eval("C04")
		w.Event("C04", "capped-set-evaluations")
		if len(set) > capK {
			w.Violation("C04", "set-larger-than-cap:"+when, map[string]any{"consumer": id, "size": len(set), "cap": capK})
		}
		want := capK
		if len(eligible) < want {
			want = len(eligible)
		}
		if len(set) != want {
			w.Violation("C04", "capped-set-wrong-size:"+when, map[string]any{"consumer": id, "size": len(set), "cap": capK, "eligible": len(eligible)})
		}
		nprio := 0
		for _, e := range eligible {
			if e.prio {
				nprio++
			}
			if e.inSet {
				continue
			}
			for _, i := range eligible {
				if !i.inSet {
					continue
				}
				if (e.prio && !i.prio) || (e.prio == i.prio && e.sv.LastPower > i.sv.LastPower) {
					w.Violation("C04", "excluded-outranks-included:"+when, map[string]any{"consumer": id,
						"excluded": w.valName(e.sv.ConsAddr), "excluded_power": e.sv.LastPower, "excluded_prio": e.prio,
						"included": w.valName(i.sv.ConsAddr), "included_power": i.sv.LastPower, "included_prio": i.prio})
				}
			}
		}
		w.Case("C04", fmt.Sprintf("cap k%sn prio=%s", cmpStr(capK, len(eligible)), bucket(nprio+1)))
	}
	// ---------- C04 composition: power cap
	if ps.ValidatorsPowerCap > 0 && len(set) > 0 {
		var in, out []int64
		for _, v := range set {
			c := byCons[consHex(v.ProviderConsAddr)]
			if c == nil {
				continue
			}
			in = append(in, c.sv.LastPower)
			out = append(out, v.Power)
		}
		w.Eval("C04")
		w.Event("C04", "power-capped-set-evaluations")
		if msg := checkPowerCap(in, out, int64(ps.ValidatorsPowerCap)); msg != "" {
			w.Violation("C04", "power-cap:"+msg+":"+when, map[string]any{"consumer": id, "p": ps.ValidatorsPowerCap, "in": in, "out": out})
		}
	}
}

func cmpStr(a, b int) string {
	switch {
	case a < b:
		return "<"
	case a > b:
		return ">"
	}
	return "="
}

// checkPowerCap evaluates the closed-form predicates of C04 for a power-capped set.
// in[i] is the uncapped power, out[i] the capped power of the same validator; p is the percentage.
// Arbitrary-precision arithmetic: the oracle must not overflow where the code under test does not.
func checkPowerCap(in, out []int64, p int64) string {
	n := big.NewInt(int64(len(in)))
	s, so := new(big.Int), new(big.Int)
	for i := range in {
		s.Add(s, big.NewInt(in[i]))
		so.Add(so, big.NewInt(out[i]))
	}
	maxP := new(big.Int).Mul(s, big.NewInt(p))
	maxP.Quo(maxP, big.NewInt(100))
	if maxP.Sign() <= 0 {
		maxP = big.NewInt(1)
	}
	achievable := new(big.Int).Mul(n, maxP).Cmp(s) >= 0
	if achievable {
		if so.Cmp(s) != 0 {
			return "total-changed"
		}
		for i := range out {
			if big.NewInt(out[i]).Cmp(maxP) > 0 {
				return "exceeds-cap"
			}
			if out[i] < 1 {
				return "reduced-to-zero"
			}
		}
		// relative order: sort indices by input power and compare neighbours (O(n log n))
		idx := make([]int, len(in))
		for i := range idx {
			idx[i] = i
		}
		sort.Slice(idx, func(a, b int) bool { return in[idx[a]] > in[idx[b]] })
		minOutAbove := int64(-1) // min output among strictly larger inputs seen so far
		i := 0
		for i < len(idx) {
			j := i
			groupMin, groupMax := out[idx[i]], out[idx[i]]
			for j < len(idx) && in[idx[j]] == in[idx[i]] {
				if out[idx[j]] < groupMin {
					groupMin = out[idx[j]]
				}
				if out[idx[j]] > groupMax {
					groupMax = out[idx[j]]
				}
				j++
			}
			if minOutAbove >= 0 && groupMax > minOutAbove {
				return "order-inverted"
			}
			if minOutAbove < 0 || groupMin < minOutAbove {
				minOutAbove = groupMin
			}
			i = j
		}
		return ""
	}
	for i := range out {
		if out[i] != out[0] {
			return "unachievable-but-powers-differ"
		}
	}
	return ""
}

func sdkIntU(u uint64) sdkmath.Int { return sdkmath.NewIntFromUint64(u) }
