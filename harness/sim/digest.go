package sim

import (
	"crypto/sha256"
	"encoding/hex"

	abci "github.com/cometbft/cometbft/abci/types"
)

// DigestResponse is a SHA-256 over the deterministic protobuf serialisation of a FinalizeBlock response.
func DigestResponse(res *abci.ResponseFinalizeBlock) string {
	bz, err := res.Marshal()
	if err != nil {
		panic(err)
	}
	h := sha256.Sum256(bz)
	return hex.EncodeToString(h[:])
}
