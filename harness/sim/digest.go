package sim

import (
	abci "github.com/cometbft/cometbft/abci/types"
)

// DigestResponse is a SHA-256 over the deterministic protobuf serialisation of a FinalizeBlock response.
func DigestResponse(res *abci.ResponseFinalizeBlock) string { return sha(mustMarshal(res)) }
