package sim

import (
	"fmt"
	"os"
	"strconv"
	"testing"
	"time"

	"cosmossdk.io/math"

	"github.com/cometbft/cometbft/crypto/tmhash"
	cmtproto "github.com/cometbft/cometbft/proto/tendermint/types"
	cmttypes "github.com/cometbft/cometbft/types"

	"github.com/cosmos/gogoproto/proto"

	sdk "github.com/cosmos/cosmos-sdk/types"
	stakingtypes "github.com/cosmos/cosmos-sdk/x/staking/types"

	clienttypes "github.com/cosmos/ibc-go/v10/modules/core/02-client/types"
	ibctm "github.com/cosmos/ibc-go/v10/modules/light-clients/07-tendermint"

	providertypes "github.com/cosmos/interchain-security/v7/x/ccv/provider/types"
)

func (w *World) keyByAddr(addr []byte) *ConsKey {
	for _, v := range w.Vals {
		if consHex(v.Key.Addr) == consHex(addr) {
			return v.Key
		}
	}
	for _, k := range w.KeyPool {
		if consHex(k.Addr) == consHex(addr) {
			return k
		}
	}
	for _, k := range w.allProvKeys() {
		if consHex(k.Addr) == consHex(addr) {
			return k
		}
	}
	return nil
}

func mkBlockID(seed string) cmttypes.BlockID {
	return cmttypes.BlockID{Hash: tmhash.Sum([]byte("block-" + seed)), PartSetHeader: cmttypes.PartSetHeader{Total: 1, Hash: tmhash.Sum([]byte("parts-" + seed))}}
}

// signedVote builds and signs a vote with the given key for chainID.
func signedVote(k *ConsKey, chainID string, typ cmtproto.SignedMsgType, height int64, round int32, bid cmttypes.BlockID, idx int32, ts time.Time) *cmttypes.Vote {
	v := &cmttypes.Vote{Type: typ, Height: height, Round: round, BlockID: bid, Timestamp: ts, ValidatorAddress: k.Priv.PubKey().Address(), ValidatorIndex: idx}
	sig, err := k.Priv.Sign(cmttypes.VoteSignBytes(chainID, v.ToProto()))
	if err != nil {
		panic(err)
	}
	v.Signature = sig
	return v
}

// dvEvidence is a double-vote evidence object under construction (mutable before it is turned into a message).
type dvEvidence struct {
	a, b   *cmttypes.Vote
	header *ibctm.Header
}

func (e *dvEvidence) msg(submitter *Account, consumerID string) *providertypes.MsgSubmitConsumerDoubleVoting {
	a, b := e.a, e.b
	if a.BlockID.Key() > b.BlockID.Key() {
		a, b = b, a
	}
	ev := &cmttypes.DuplicateVoteEvidence{VoteA: a, VoteB: b, TotalVotingPower: 100, ValidatorPower: 10, Timestamp: a.Timestamp}
	return &providertypes.MsgSubmitConsumerDoubleVoting{Submitter: submitter.Addr.String(), DuplicateVoteEvidence: ev.ToProto(), InfractionBlockHeader: e.header, ConsumerId: consumerID}
}

// validDV builds valid double-vote evidence for the validator using consumer key `k` on chain c at one of its real heights.
func (w *World) validDV(c *Chain, k *ConsKey, chainID string, tag string) *dvEvidence {
	h := c.Height() - 1
	hdr := proto.Clone(c.Headers[h]).(*ibctm.Header)
	vs := c.ValsAt[h]
	idx, _ := vs.GetByAddress(k.Priv.PubKey().Address())
	ts := hdr.GetTime()
	return &dvEvidence{
		a:      signedVote(k, chainID, cmtproto.PrecommitType, h, 0, mkBlockID(tag+"-a"), idx, ts),
		b:      signedVote(k, chainID, cmtproto.PrecommitType, h, 0, mkBlockID(tag+"-b"), idx, ts),
		header: hdr,
	}
}

// expectedSlashPower recomputes the power argument of the equivocation slash from staking entries (ADR-013).
func (w *World) expectedSlashPower(ctx sdk.Context, valAddr sdk.ValAddress, now time.Time) (int64, map[string]bool) {
	sk := w.P.PApp.StakingKeeper
	lp, _ := sk.GetLastValidatorPower(ctx, valAddr)
	tokens := math.ZeroInt()
	ubds, _ := sk.GetUnbondingDelegationsFromValidator(ctx, valAddr)
	for _, u := range ubds {
		for _, e := range u.Entries {
			if e.IsMature(now) && !e.OnHold() {
				continue
			}
			tokens = tokens.Add(e.InitialBalance)
		}
	}
	dsts := map[string]bool{}
	reds, _ := sk.GetRedelegationsFromSrcValidator(ctx, valAddr)
	for _, r := range reds {
		for _, e := range r.Entries {
			if e.IsMature(now) && !e.OnHold() {
				continue
			}
			tokens = tokens.Add(e.InitialBalance)
			dsts[r.ValidatorDstAddress] = true
		}
	}
	return lp + sdk.TokensToConsensusPower(tokens, sdk.DefaultPowerReduction), dsts
}

type c07case struct {
	name     string
	msg      sdk.Msg
	valid    bool
	signers  []string // provider cons hex of the validators that must be punished (valid evidence)
	consumer string
}

// submitEvidence puts the message alone into a block and judges the outcome.
func (w *World) submitEvidence(c c07case) (executed bool) {
	if w.P.Halted {
		return false
	}
	// keep the provider alive: equivocation punishments remove validators for good
	if c.valid {
		alive := 0
		for _, st := range w.readVStates(w.P.Ctx()) {
			if st.Status == stakingtypes.Bonded && !st.Jailed {
				alive++
			}
		}
		if alive-len(c.signers) < 2 {
			w.Event("C07", "valid-case-skipped-to-keep-provider-alive")
			return false
		}
	}
	submitter := w.Accts["stranger"]
	pk := w.P.PApp.ProviderKeeper
	// state just before the block (block processing of an empty block does not punish anybody)
	pre := w.readVStates(w.P.Ctx())
	ip, _ := pk.GetInfractionParameters(w.P.Ctx(), c.consumer)
	w.Tick()
	now := w.Now
	expPower := map[string]int64{}
	redDst := map[string]bool{}
	for _, pc := range c.signers {
		if st, ok := pre[pc]; ok {
			va, _ := sdk.ValAddressFromBech32(st.Oper)
			p, d := w.expectedSlashPower(w.P.Ctx(), va, now)
			expPower[pc] = p
			for k := range d {
				redDst[k] = true
			}
		}
	}
	outs := w.ProviderStep([]TxSpec{{Signer: submitter, Msgs: []sdk.Msg{c.msg}, Tag: "evidence"}}, true, nil)
	w.Eval("C07")
	w.Event("C07", "evidence-submissions")
	w.Case("C07", c.name)
	ok := len(outs) == 1 && outs[0].OK()
	lg := "<not included>"
	if len(outs) == 1 {
		lg = logOf(outs[0])
	}
	if len(w.st("C07").Samples) < 5 {
		w.Sample("C07", map[string]any{"case": c.name, "expected_accept": c.valid, "accepted": ok, "log": lg})
	}
	post := w.readVStates(w.P.Ctx())
	var txChanges []KeyChange
	for _, m := range w.Mons {
		if m13, ok := m.(*monC13); ok && m13.begin != nil && m13.preEnd != nil {
			txChanges = diffSnap(m13.begin, m13.preEnd)
		}
	}
	if !c.valid {
		w.Event("C07", "invalid-evidence-cases")
		if ok {
			w.Violation("C07", "invalid-evidence-accepted:"+c.name, map[string]any{"log": lg})
		}
		if len(txChanges) > 0 {
			w.Violation("C07", "rejected-evidence-changed-provider-state:"+c.name, map[string]any{"keys": len(txChanges)})
		}
		for pc, a := range post {
			b := pre[pc]
			if a.Jailed != b.Jailed || a.Tombstoned != b.Tombstoned || !a.Tokens.Equal(b.Tokens) || !a.JailedUntil.Equal(b.JailedUntil) {
				w.Violation("C07", "rejected-evidence-changed-validator:"+c.name, map[string]any{"val": w.valNameHex(pc)})
			}
		}
		if len(w.Calls.Slashes)+len(w.Calls.Jails)+len(w.Calls.Tombs) > 0 && !ok {
			// calls inside a failed tx are rolled back with it; nothing to flag
		}
		return true
	}
	w.Event("C07", "valid-evidence-cases")
	if !ok {
		w.Violation("C07", "valid-evidence-rejected:"+c.name, map[string]any{"log": lg})
		return true
	}
	punished := map[string]bool{}
	for _, pc := range c.signers {
		punished[pc] = true
		a, b := post[pc], pre[pc]
		w.Event("C07", "punishments")
		if !a.Jailed {
			w.Violation("C07", "signer-not-jailed:"+c.name, map[string]any{"val": w.valNameHex(pc)})
		}
		wantUntil := now.Add(ip.DoubleSign.JailDuration)
		if !a.JailedUntil.Equal(wantUntil) {
			w.Violation("C20", "double-sign-jail-duration-not-from-consumer-parameters", map[string]any{"val": w.valNameHex(pc), "until": a.JailedUntil.String(), "expected": wantUntil.String()})
		}
		if a.Tombstoned != (b.Tombstoned || ip.DoubleSign.Tombstone) {
			w.Violation("C07", "tombstone-flag-not-per-consumer-settings:"+c.name, map[string]any{"val": w.valNameHex(pc), "tombstoned": a.Tombstoned, "setting": ip.DoubleSign.Tombstone})
		}
		found := false
		for _, s := range w.Calls.Slashes {
			if s.Cons != pc {
				continue
			}
			found = true
			w.Eval("C20")
			w.Event("C20", "double-sign-punishments-compared")
			if !s.Fraction.Equal(ip.DoubleSign.SlashFraction) {
				w.Violation("C20", "double-sign-slash-fraction-not-from-consumer-parameters", map[string]any{"val": w.valNameHex(pc), "used": s.Fraction.String(), "in_force": ip.DoubleSign.SlashFraction.String()})
			}
			if s.Infraction != stakingtypes.Infraction_INFRACTION_DOUBLE_SIGN {
				w.Violation("C07", "slash-call-infraction-type:"+c.name, map[string]any{"infraction": s.Infraction.String()})
			}
			if s.Power != expPower[pc] {
				w.Violation("C07", "slash-does-not-count-unbonding-and-redelegating-stake:"+c.name, map[string]any{"val": w.valNameHex(pc), "power_argument": s.Power, "expected": expPower[pc], "last_power": b.LastPower})
			}
			if expPower[pc] > b.LastPower {
				w.Event("C07", "punishments-with-unbonding-or-redelegating-stake")
			}
		}
		if !found {
			w.Violation("C07", "signer-not-slashed:"+c.name, map[string]any{"val": w.valNameHex(pc)})
		}
	}
	for pc, a := range post {
		if punished[pc] {
			continue
		}
		b := pre[pc]
		tokensOK := a.Tokens.Equal(b.Tokens) || redDst[a.Oper]
		if a.Jailed != b.Jailed || a.Tombstoned != b.Tombstoned || !tokensOK || !a.JailedUntil.Equal(b.JailedUntil) {
			w.Violation("C07", "other-validator-affected:"+c.name, map[string]any{"val": w.valNameHex(pc), "tokens": []string{b.Tokens.String(), a.Tokens.String()}, "jailed": []bool{b.Jailed, a.Jailed}})
		}
	}
	for _, s := range w.Calls.Slashes {
		if !punished[s.Cons] {
			w.Violation("C07", "slash-call-for-non-signer:"+c.name, map[string]any{"val": w.valNameHex(s.Cons)})
		}
	}
	return true
}

// providerConsOf resolves, with the harness' own knowledge, which provider validator uses consumer key k on consumer id.
func (w *World) providerConsOf(id string, k *ConsKey) (string, bool) {
	pk := w.P.PApp.ProviderKeeper
	ctx := w.P.Ctx()
	for _, v := range w.createdVals() {
		pa := providertypes.NewProviderConsAddress(v.ConsAddr())
		if ck, found := pk.GetValidatorConsumerPubKey(ctx, id, pa); found {
			if ck.String() == mustProtoKey(k).String() {
				return consHex(v.ConsAddr()), true
			}
		} else if consHex(v.Key.Addr) == consHex(k.Addr) {
			return consHex(v.ConsAddr()), true
		}
	}
	return "", false
}

func mustProtoKey(k *ConsKey) interface{ String() string } {
	p, err := cmtPubToProto(k)
	if err != nil {
		panic(err)
	}
	return &p
}

// TestC07Evidence: valid double-vote / light-client-attack evidence built from real consumer headers and the harness' keys,
// the mutation operators of the property, replays, consumers sharing a chain id, stake that is unbonding or redelegating.
func TestC07Evidence(t *testing.T) {
	if os.Getenv("VERIF_DIRECTED") == "" {
		t.Skip("directed test; run through ./check")
	}
	start := time.Now()
	seed, _ := strconv.ParseInt(os.Getenv("VERIF_SEED"), 10, 64)
	tier := os.Getenv("VERIF_TIER")
	rounds := 3
	if tier == "thorough" {
		rounds = 12
	}
	var last *World
	fatal := ""
	for round := 0; round < rounds && fatal == ""; round++ {
		cfg := MakeConfig("valset", tier, seed, 4000+round)
		cfg.LiveConsumers = 2
		cfg.Profile = "equiv"
		cfg.HandshakeDelayMax = 1
		cfg.M = int64(cfg.NumVals)
		w := NewWorld(t, fmt.Sprintf("c07-evidence-%s-%d-%d", tier, seed, round), cfg)
		if last != nil {
			w.stats, w.violations, w.vioSeen = last.stats, last.violations, last.vioSeen
		}
		last = w
		func() {
			defer func() {
				if r := recover(); r != nil {
					fatal = fmt.Sprintf("harness panic: %v", r)
				}
			}()
			runC07Round(w, round)
		}()
	}
	last.Finish(os.Getenv("VERIF_OUT"), start, fatal)
}

func runC07Round(w *World, round int) {
	pr := w.AttachMonitors()
	w.Init(pr)
	w.menu = nil
	w.setupLive()
	// tombstoning per consumer: the first live consumer keeps the default (tombstone), the second switches it off before launch
	for i := 0; i < 30; i++ {
		w.Step++
		w.Tick()
		w.ProviderStep(nil, false, nil)
		w.ConsumersStep()
		done := len(w.LiveLinks()) == 2
		for _, ci := range w.Shadow.Consumers {
			if !ci.ChanOpen {
				done = false
			}
		}
		if done {
			break
		}
	}
	links := w.LiveLinks()
	if len(links) < 2 {
		panic("setup: two live consumers expected")
	}
	la, lb := links[0], links[1]
	pk := w.P.PApp.ProviderKeeper
	chainA, _ := pk.GetConsumerChainId(w.P.Ctx(), la.CID)
	chainB, _ := pk.GetConsumerChainId(w.P.Ctx(), lb.CID)
	// stake layouts: undelegations and redelegations away from the future signers; for the third validator the fractional power parts of the two
	// categories add up to a whole unit (1.5 + 1.7), so converting them to power separately loses one
	d := w.Accts["deleg0"]
	var specs []TxSpec
	for _, v := range w.createdVals()[:4] {
		specs = append(specs, TxSpec{Signer: d, Msgs: []sdk.Msg{MsgDelegate(d, v, 6_000_000)}, Tag: "delegate"})
	}
	w.Tick()
	w.ProviderStep(specs, false, nil)
	specs = nil
	vs := w.createdVals()
	specs = append(specs, TxSpec{Signer: d, Msgs: []sdk.Msg{MsgUndelegate(d, vs[0], 2_500_000)}, Tag: "undelegate"})
	specs = append(specs, TxSpec{Signer: d, Msgs: []sdk.Msg{MsgRedelegate(d, vs[1], vs[3], 3_000_000)}, Tag: "redelegate"})
	specs = append(specs, TxSpec{Signer: d, Msgs: []sdk.Msg{MsgUndelegate(d, vs[2], 1_500_000), MsgRedelegate(d, vs[2], vs[3], 1_700_000)}, Tag: "undelegate+redelegate"})
	w.Tick()
	w.ProviderStep(specs, false, nil)
	for i := 0; i < 6; i++ {
		w.Step++
		w.Tick()
		w.ProviderStep(nil, false, nil)
		w.ConsumersStep()
	}
	// a third consumer sharing A's chain id, on which one validator uses a different key
	owner := w.Accts["owner1"]
	shared := w.createCWith(owner, chainA, DefaultInitParams(w.Now.Add(25*time.Second), w.Cfg.ConsumerUnbonding))
	specs = nil
	// the validator that gets a different key on the chain-id-sharing consumer is a member of A's current set
	var special *Val
	for _, cv := range la.C.ValsAt[la.C.Height()-1].Validators {
		if k := w.keyByAddr(cv.Address); k != nil {
			if pc, ok := w.providerConsOf(la.CID, k); ok {
				for _, v := range w.createdVals() {
					if consHex(v.ConsAddr()) == pc {
						special = v
					}
				}
			}
		}
		if special != nil {
			break
		}
	}
	for _, v := range w.createdVals() {
		var k *ConsKey
		if v == special {
			k = w.KeyPool[len(w.KeyPool)-1]
		}
		specs = append(specs, TxSpec{Signer: v.Oper, Msgs: []sdk.Msg{MsgOptIn(v, shared, k)}, Tag: "opt-in"})
	}
	w.Tick()
	w.ProviderStep(specs, false, nil)
	for i := 0; i < 8; i++ {
		w.Step++
		w.Tick()
		w.ProviderStep(nil, false, nil)
		w.ConsumersStep()
	}

	// candidate signers: members of A's current validator set (by consumer key)
	signerKey := func(l *Link, n int) (*ConsKey, string) {
		vals := l.C.ValsAt[l.C.Height()-1].Validators
		for off := 0; off < len(vals); off++ {
			v := vals[(n+off)%len(vals)]
			k := w.keyByAddr(v.Address)
			if k == nil {
				continue
			}
			if pc, ok := w.providerConsOf(l.CID, k); ok {
				if st := w.readVStates(w.P.Ctx())[pc]; st.Found && !st.Tombstoned && st.Status != stakingtypes.Unbonded {
					return k, pc
				}
			}
		}
		return nil, ""
	}
	n := round
	// ---------- invalid evidence first (nobody is punished, so the same victim serves all mutations)
	kA, pcA := signerKey(la, n)
	if kA == nil {
		panic("no signer candidate")
	}
	mut := func(name string, f func(e *dvEvidence) (string, bool)) {
		e := w.validDV(la.C, kA, chainA, name)
		cid := la.CID
		if f != nil {
			if c, ok := f(e); ok {
				cid = c
			}
		}
		w.submitEvidence(c07case{name: "dv-invalid:" + name, msg: e.msg(w.Accts["stranger"], cid), valid: false, consumer: la.CID})
	}
	resign := func(v *cmttypes.Vote, k *ConsKey, chain string) {
		sig, _ := k.Priv.Sign(cmttypes.VoteSignBytes(chain, v.ToProto()))
		v.Signature = sig
	}
	mut("other-chain-id", func(e *dvEvidence) (string, bool) {
		resign(e.a, kA, "otherchain")
		resign(e.b, kA, "otherchain")
		return "", false
	})
	mut("provider-chain-id", func(e *dvEvidence) (string, bool) {
		resign(e.a, kA, "provider")
		resign(e.b, kA, "provider")
		return "", false
	})
	mut("height-differs", func(e *dvEvidence) (string, bool) { e.b.Height++; resign(e.b, kA, chainA); return "", false })
	mut("round-differs", func(e *dvEvidence) (string, bool) { e.b.Round++; resign(e.b, kA, chainA); return "", false })
	mut("type-differs", func(e *dvEvidence) (string, bool) {
		e.b.Type = cmtproto.PrevoteType
		resign(e.b, kA, chainA)
		return "", false
	})
	mut("identical-block-ids", func(e *dvEvidence) (string, bool) {
		e.b.BlockID = e.a.BlockID
		resign(e.b, kA, chainA)
		return "", false
	})
	mut("signature-bit-flip-a", func(e *dvEvidence) (string, bool) { e.a.Signature[3] ^= 1; return "", false })
	mut("signature-bit-flip-b", func(e *dvEvidence) (string, bool) { e.b.Signature[17] ^= 0x80; return "", false })
	mut("signed-by-other-key", func(e *dvEvidence) (string, bool) {
		other := w.KeyPool[0]
		resign(e.a, other, chainA)
		resign(e.b, other, chainA)
		return "", false
	})
	mut("validator-address-differs", func(e *dvEvidence) (string, bool) {
		other := w.KeyPool[1]
		e.b.ValidatorAddress = other.Priv.PubKey().Address()
		resign(e.b, other, chainA)
		return "", false
	})
	mut("header-valset-without-signer", func(e *dvEvidence) (string, bool) {
		var keep []*cmtproto.Validator
		for _, v := range e.header.ValidatorSet.Validators {
			if consHex(v.Address) != consHex(kA.Addr) {
				keep = append(keep, v)
			}
		}
		e.header.ValidatorSet.Validators = keep
		if e.header.ValidatorSet.Proposer != nil && consHex(e.header.ValidatorSet.Proposer.Address) == consHex(kA.Addr) && len(keep) > 0 {
			e.header.ValidatorSet.Proposer = keep[0]
		}
		return "", false
	})
	mut("header-key-not-matching-address", func(e *dvEvidence) (string, bool) {
		op, _ := cmtPubToProto(w.KeyPool[2])
		for _, v := range e.header.ValidatorSet.Validators {
			if consHex(v.Address) == consHex(kA.Addr) {
				v.PubKey = op
			}
		}
		return "", false
	})
	mut("unknown-consumer", func(e *dvEvidence) (string, bool) { return "9999", true })
	mut("submitted-for-other-consumer", func(e *dvEvidence) (string, bool) { return lb.CID, true })
	if kc := w.KeyPool[len(w.KeyPool)-1]; true {
		// the validator with a different key on the chain-id-sharing consumer: evidence with its key of A, submitted under the other consumer
		v := special
		if v == nil {
			v = w.createdVals()[0]
		}
		if kv := w.keyOn(la.CID, v); kv != nil && consHex(kv.Addr) != consHex(kc.Addr) {
			e := w.validDV(la.C, kv, chainA, "shared-chain-id")
			if idx, _ := la.C.ValsAt[la.C.Height()-1].GetByAddress(kv.Priv.PubKey().Address()); idx >= 0 {
				// Two consumers share the chain id; the validator uses another key on the second one. Its provider key was never
				// assigned there, so it resolves to the validator itself (C06) and the provider cannot tell the two chains apart:
				// the outcome is recorded, not judged (see DESIGN.md, observation O2).
				w.Tick()
				outs := w.ProviderStep([]TxSpec{{Signer: w.Accts["stranger"], Msgs: []sdk.Msg{e.msg(w.Accts["stranger"], shared)}, Tag: "evidence"}}, true, nil)
				if len(outs) == 1 {
					w.Event("C07", fmt.Sprintf("informational:shared-chain-id-evidence-under-other-consumer accepted=%v", outs[0].OK()))
				}
			}
		}
	}
	_ = chainB
	// ---------- a signer that has left the bonded set since (unbonding, stake still at risk) is still punished
	w.unbondingSignerCase(la, chainA)
	// ---------- misbehaviour (light client attack): invalid variants, then a valid one
	w.misbehaviourCases(la, lb, chainA, round%2)
	// ---------- valid double votes
	for i := 0; i < 3; i++ {
		k, pc := signerKey(la, n+1+i)
		if k == nil {
			break
		}
		e := w.validDV(la.C, k, chainA, fmt.Sprintf("valid-%d", i))
		if !w.submitEvidence(c07case{name: fmt.Sprintf("dv-valid:%s", w.keyRelation(la.CID, k)), msg: e.msg(w.Accts["stranger"], la.CID), valid: true, signers: []string{pc}, consumer: la.CID}) {
			continue
		}
		// replay: with tombstoning enabled a validator is punished at most once
		ip, _ := pk.GetInfractionParameters(w.P.Ctx(), la.CID)
		e2 := w.validDV(la.C, k, chainA, fmt.Sprintf("replay-%d", i))
		if ip.DoubleSign.Tombstone {
			w.submitEvidence(c07case{name: "dv-replay-after-tombstone", msg: e2.msg(w.Accts["stranger"], la.CID), valid: false, consumer: la.CID})
		}
	}
	_ = pcA
	// evidence for a validator on the second consumer (its own parameters apply)
	if k, pc := signerKey(lb, n); k != nil {
		e := w.validDV(lb.C, k, chainB, "valid-b")
		w.submitEvidence(c07case{name: "dv-valid-second-consumer:" + w.keyRelation(lb.CID, k), msg: e.msg(w.Accts["stranger"], lb.CID), valid: true, signers: []string{pc}, consumer: lb.CID})
	}
	for i := 0; i < 3; i++ {
		w.Step++
		w.Tick()
		w.ProviderStep(nil, false, nil)
		w.ConsumersStep()
	}
	w.FinalChecks()
}

// keyOn returns the consensus key validator v currently uses on consumer id.
func (w *World) keyOn(id string, v *Val) *ConsKey {
	pk := w.P.PApp.ProviderKeeper
	if ck, found := pk.GetValidatorConsumerPubKey(w.P.Ctx(), id, providertypes.NewProviderConsAddress(v.ConsAddr())); found {
		for _, k := range append(w.KeyPool, w.allProvKeys()...) {
			if p, err := cmtPubToProto(k); err == nil && p.String() == ck.String() {
				return k
			}
		}
		return nil
	}
	return v.Key
}

func (w *World) keyRelation(id string, k *ConsKey) string {
	for _, v := range w.Vals {
		if consHex(v.Key.Addr) == consHex(k.Addr) {
			return "provider-key"
		}
	}
	return "assigned-key"
}

// ---- light client attack

// forgeHeader builds a conflicting header at the height of `real`, signed by the validators whose addresses are in signers.
func (w *World) forgeHeader(c *Chain, real *ibctm.Header, signers map[string]bool, chainID string, round int32, mutate func(h *cmttypes.Header)) *ibctm.Header {
	return w.forgeHeaderWithSet(c, real, signers, chainID, round, mutate, nil)
}

// forgeHeaderWithSet: as forgeHeader; when ownSet is given the forged header claims that validator set (a subset of the
// real one, laid out differently), which makes the pair a lunatic-type attack.
func (w *World) forgeHeaderWithSet(c *Chain, real *ibctm.Header, signers map[string]bool, chainID string, round int32, mutate func(h *cmttypes.Header), ownSet map[string]bool) *ibctm.Header {
	sh, err := cmttypes.SignedHeaderFromProto(real.SignedHeader)
	if err != nil {
		panic(err)
	}
	hdr := *sh.Header
	hdr.Time = hdr.Time.Add(time.Second)
	hdr.ChainID = chainID
	if mutate != nil {
		mutate(&hdr)
	}
	vs := c.ValsAt[hdr.Height]
	if ownSet != nil {
		var sub []*cmttypes.Validator
		for _, v := range vs.Validators {
			if ownSet[consHex(v.Address)] {
				sub = append(sub, cmttypes.NewValidator(v.PubKey, v.VotingPower))
			}
		}
		vs = cmttypes.NewValidatorSet(sub)
		hdr.ValidatorsHash = vs.Hash()
	}
	bid := cmttypes.BlockID{Hash: hdr.Hash(), PartSetHeader: cmttypes.PartSetHeader{Total: 3, Hash: tmhash.Sum([]byte("parts"))}}
	commit := &cmttypes.Commit{Height: hdr.Height, Round: round, BlockID: bid}
	for i, v := range vs.Validators {
		if !signers[consHex(v.Address)] {
			commit.Signatures = append(commit.Signatures, cmttypes.NewCommitSigAbsent())
			continue
		}
		k := w.keyByAddr(v.Address)
		vote := signedVote(k, chainID, cmtproto.PrecommitType, hdr.Height, round, bid, int32(i), hdr.Time)
		commit.Signatures = append(commit.Signatures, cmttypes.CommitSig{BlockIDFlag: cmttypes.BlockIDFlagCommit, ValidatorAddress: v.Address, Timestamp: vote.Timestamp, Signature: vote.Signature})
	}
	out := proto.Clone(real).(*ibctm.Header)
	out.SignedHeader = &cmtproto.SignedHeader{Header: hdr.ToProto(), Commit: commit.ToProto()}
	if ownSet != nil {
		vp, err := vs.ToProto()
		if err != nil {
			panic(err)
		}
		vp.TotalVotingPower = vs.TotalVotingPower()
		out.ValidatorSet = vp
	}
	return out
}

func (w *World) withTrust(c *Chain, h *ibctm.Header, trusted int64) *ibctm.Header {
	out := proto.Clone(h).(*ibctm.Header)
	tv := c.TC.TrustedValidators[uint64(trusted)]
	tvp, err := tv.ToProto()
	if err != nil {
		panic(err)
	}
	tvp.TotalVotingPower = tv.TotalVotingPower()
	out.TrustedHeight = clienttypes.NewHeight(0, uint64(trusted))
	out.TrustedValidators = tvp
	return out
}

func (w *World) misbehaviourCases(la, lb *Link, chainA string, variant int) {
	c := la.C
	submitter := w.Accts["stranger"]
	// make sure the provider's client of A is fresh, and pick heights
	w.refreshClients()
	trusted := int64(clientLatestHeight(w.P, la.ProvClient).RevisionHeight)
	w.Tick()
	w.Produce(c, nil, nil)
	w.Tick()
	w.Produce(c, nil, nil)
	H := c.Height()
	real := w.withTrust(c, c.Headers[H], trusted)
	vs := c.ValsAt[H]
	// Byzantine set: enough validators to exceed the trust level, chosen from the largest
	byz := map[string]bool{}
	var byzProv []string
	var power, total int64
	total = vs.TotalVotingPower()
	for _, v := range vs.Validators {
		if power*3 > total*2 {
			break
		}
		k := w.keyByAddr(v.Address)
		if k == nil {
			continue
		}
		pc, ok := w.providerConsOf(la.CID, k)
		if !ok {
			continue
		}
		byz[consHex(v.Address)] = true
		byzProv = append(byzProv, pc)
		power += v.VotingPower
	}
	mk := func(h1, h2 *ibctm.Header, client string) *providertypes.MsgSubmitConsumerMisbehaviour {
		return &providertypes.MsgSubmitConsumerMisbehaviour{Submitter: submitter.Addr.String(), ConsumerId: la.CID, Misbehaviour: &ibctm.Misbehaviour{ClientId: client, Header1: h1, Header2: h2}}
	}
	bad := func(name string, m *providertypes.MsgSubmitConsumerMisbehaviour) {
		w.submitEvidence(c07case{name: "lca-invalid:" + name, msg: m, valid: false, consumer: la.CID})
	}
	forged := w.withTrust(c, w.forgeHeader(c, c.Headers[H], byz, chainA, 1, nil), trusted)
	kind := "equivocation"
	if variant == 1 {
		// lunatic variant: the forged header claims its own validator set - a subset of the real one that does not start with
		// the real set's first validator, so the two headers lay their validators out differently - signed by all its members
		// leave out validator j (the smallest j that works): members before j keep their index, members after j shift by one
		var sub map[string]bool
		var subProv []string
		var sp int64
		for j := 0; j+1 < len(vs.Validators); j++ {
			sub, subProv, sp = map[string]bool{}, nil, 0
			shifted := 0
			for i, v := range vs.Validators {
				if i == j || (i > j && shifted > 0 && sp*3 > total+3) {
					continue
				}
				k := w.keyByAddr(v.Address)
				if k == nil {
					continue
				}
				pc, ok := w.providerConsOf(la.CID, k)
				if !ok {
					continue
				}
				sub[consHex(v.Address)] = true
				subProv = append(subProv, pc)
				sp += v.VotingPower
				if i > j {
					shifted++
				}
			}
			if sp*3 > total+3 && shifted > 0 {
				break
			}
			sp = 0
		}
		if sp*3 > total+3 && len(sub) >= 1 {
			byz, byzProv = sub, subProv
			forged = w.withTrust(c, w.forgeHeaderWithSet(c, c.Headers[H], byz, chainA, 1, nil, byz), trusted)
			kind = "lunatic-own-subset"
		} else {
			w.Infof("lunatic variant not applicable: sub=%d of %d validators, power %d of %d", len(sub), len(vs.Validators), sp, total)
			w.Event("C07", "lunatic-variant-not-applicable")
		}
	}
	bad("wrong-client-id", mk(real, forged, lb.ProvClient))
	m2 := mk(real, forged, la.ProvClient)
	m2.ConsumerId = lb.CID
	bad("other-consumer-id", m2)
	bad("headers-at-different-heights", mk(real, w.withTrust(c, w.forgeHeader(c, c.Headers[H-1], byz, chainA, 1, nil), trusted), la.ProvClient))
	few := map[string]bool{}
	for a := range byz {
		few[a] = true
		break
	}
	if len(vs.Validators) > 3 {
		bad("signed-by-less-than-trust-level", mk(real, w.withTrust(c, w.forgeHeader(c, c.Headers[H], few, chainA, 1, nil), trusted), la.ProvClient))
	}
	bad("other-chain-id", mk(w.withTrust(c, w.forgeHeader(c, c.Headers[H], byz, "otherchain", 1, nil), trusted), w.withTrust(c, w.forgeHeader(c, c.Headers[H], byz, "otherchain", 1, func(h *cmttypes.Header) { h.Time = h.Time.Add(time.Second) }), trusted), la.ProvClient))
	bad("amnesia-shaped-different-rounds", mk(real, w.withTrust(c, w.forgeHeader(c, c.Headers[H], byz, chainA, 2, nil), trusted), la.ProvClient))
	bad("identical-headers", mk(real, real, la.ProvClient))
	// valid equivocation light-client attack: the validators that signed both headers are punished
	var signers []string
	pre := w.readVStates(w.P.Ctx())
	for _, pc := range byzProv {
		if st := pre[pc]; st.Found && !st.Tombstoned && st.Status != stakingtypes.Unbonded {
			signers = append(signers, pc)
		}
	}
	w.submitEvidence(c07case{name: fmt.Sprintf("lca-valid %s signers=%s", kind, bucket(len(signers))), msg: mk(real, forged, la.ProvClient), valid: true, signers: signers, consumer: la.CID})
}

// unbondingSignerCase: evidence for an infraction at a height at which the validator was in the consumer's set; before the
// evidence is submitted the validator removes its self-delegation (jailed, status Unbonding). The stake is still at risk.
func (w *World) unbondingSignerCase(la *Link, chainA string) {
	c := la.C
	h := c.Height() - 1
	vs := c.ValsAt[h]
	var victim *Val
	var key *ConsKey
	pre := w.readVStates(w.P.Ctx())
	alive := 0
	for _, st := range pre {
		if st.Status == stakingtypes.Bonded && !st.Jailed {
			alive++
		}
	}
	if alive < 4 {
		return
	}
	for _, cv := range vs.Validators {
		k := w.keyByAddr(cv.Address)
		if k == nil {
			continue
		}
		pc, ok := w.providerConsOf(la.CID, k)
		if !ok {
			continue
		}
		st := pre[pc]
		if !st.Found || st.Tombstoned || st.Jailed || st.Status != stakingtypes.Bonded {
			continue
		}
		for _, v := range w.createdVals() {
			if consHex(v.ConsAddr()) == pc {
				victim, key = v, k
			}
		}
		if victim != nil {
			break
		}
	}
	if victim == nil {
		return
	}
	e := w.validDV(c, key, chainA, "unbonding-signer")
	// the operator removes its whole self-delegation: the validator is jailed and starts unbonding
	have := w.delegationTokens(victim.Oper, victim)
	if have <= 0 {
		return
	}
	w.Tick()
	outs := w.ProviderStep([]TxSpec{{Signer: victim.Oper, Msgs: []sdk.Msg{MsgUndelegate(victim.Oper, victim, have)}, Tag: "undelegate"}}, true, nil)
	if len(outs) != 1 || !outs[0].OK() {
		return
	}
	for i := 0; i < 3; i++ {
		w.Step++
		w.Tick()
		w.ProviderStep(nil, false, nil)
		w.ConsumersStep()
	}
	st := w.readVStates(w.P.Ctx())[consHex(victim.ConsAddr())]
	if !st.Found || st.Status != stakingtypes.Unbonding {
		w.Event("C07", "unbonding-signer-case-not-reached")
		return
	}
	w.submitEvidence(c07case{name: "dv-valid:signer-unbonding-since", msg: e.msg(w.Accts["stranger"], la.CID), valid: true, signers: []string{consHex(victim.ConsAddr())}, consumer: la.CID})
}
