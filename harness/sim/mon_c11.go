package sim

import (
	"fmt"
	"sort"
	"strings"
	"time"

	abci "github.com/cometbft/cometbft/abci/types"

	sdk "github.com/cosmos/cosmos-sdk/types"

	channeltypes "github.com/cosmos/ibc-go/v10/modules/core/04-channel/types"

	providertypes "github.com/cosmos/interchain-security/v7/x/ccv/provider/types"
	ccv "github.com/cosmos/interchain-security/v7/x/ccv/types"
)

// protocol-state prefixes that must survive from the stop until the removal time (pruning/acks/credits excepted) ...
var c11Retained = map[byte]bool{5: true, 7: true, 14: true, 16: true, 17: true, 29: true, 31: true, 32: true, 36: true, 37: true, 39: true, 40: true, 56: true}

// ... and every per-consumer prefix that must be gone after the removal
var c11MustBeDeleted = map[byte]string{5: "channel binding", 6: "channel binding (reverse)", 7: "client binding", 53: "client binding (reverse)", 14: "genesis",
	15: "slash acks", 16: "init chain height", 17: "queued packets", 22: "key assignments", 23: "key assignments (index)", 41: "key assignments (to prune)",
	29: "equivocation min height", 31: "validator set", 32: "opt-ins", 36: "allowlist", 37: "denylist", 56: "priority list", 39: "commission rates",
	40: "top-N threshold", 50: "removal time", 58: "pending infraction parameters"}

// descriptive records that are kept on purpose (54/55 are residue the statement does not list: reported as information)
var c11Descriptive = map[byte]bool{44: true, 45: true, 46: true, 47: true, 48: true, 49: true, 57: true, 54: true, 55: true}

type stopInfo struct {
	stopTime time.Time
	deadline time.Time
	cause    string
	atStop   map[string]string // retained keys at the end of the stop block: key -> value
	channel  string
	client   string
	stops    int
	deleted  bool
	lastRT   time.Time     // removal time stored by the provider, as last seen
	minUnb   time.Duration // smallest unbonding period in force at any (repeated) stop of this consumer
}

// monC11: stopped consumers get no updates and are removed after the unbonding period.
type monC11 struct {
	w                *World
	stopped          map[string]*stopInfo
	phasePrev        map[string]phase
	preEnd           StoreSnap
	unbonding        time.Duration
	removedThisBlock int
	causeHint        map[string]string
}

func init() {
	registerMonitor(func(w *World) Monitor {
		return &monC11{w: w, stopped: map[string]*stopInfo{}, phasePrev: map[string]phase{}, causeHint: map[string]string{}}
	})
}

func (m *monC11) Name() string { return "C11" }

func (m *monC11) snap(ctx sdk.Context) StoreSnap {
	return snapStore(ctx, m.w.P.PApp.GetKey(providertypes.StoreKey))
}

func consumerKeys(s StoreSnap, id string) map[string][]byte {
	out := map[string][]byte{}
	for k, v := range s {
		o := ownerOfKey([]byte(k), v)
		if o.known && (o.class == klLegacy || o.class == klLenPref || o.class == klByValue) && o.owner == id {
			out[k] = v
		}
	}
	return out
}

func (m *monC11) PostBegin(ctx sdk.Context) {
	w := m.w
	pk := w.P.PApp.ProviderKeeper
	m.unbonding, _ = w.P.PApp.StakingKeeper.UnbondingTime(ctx)
	now := ctx.BlockTime()
	m.removedThisBlock = 0
	var snap StoreSnap
	for id, si := range m.stopped {
		if si.deleted {
			continue
		}
		ph := pk.GetConsumerPhase(ctx, id)
		if ph == phDeleted {
			m.removedThisBlock++
			si.deleted = true
			w.Eval("C11")
			w.Event("C11", "removals")
			w.Case("C11", fmt.Sprintf("removed cause=%s stops=%s offset=%s", si.cause, bucket(si.stops), offsetClass(now.Sub(si.deadline))))
			// every (repeated) stop schedules a removal one unbonding period - as in force at that stop - later; the earliest
			// of these is due first. None of them is earlier than the first stop plus the smallest of those periods.
			if now.Before(si.deadline) || now.Before(si.stopTime.Add(si.minUnb)) {
				w.Violation("C11", "removed-before-unbonding-period-elapsed", map[string]any{"consumer": id, "stopped": si.stopTime.String(), "deadline": si.deadline.String(), "removed": now.String(), "unbonding": si.minUnb.String()})
			}
			if snap == nil {
				snap = m.snap(ctx)
			}
			left := consumerKeys(snap, id)
			var residue []string
			for k := range left {
				p := k[0]
				if what, bad := c11MustBeDeleted[p]; bad {
					w.Violation("C11", fmt.Sprintf("state-survived-removal:prefix%d", p), map[string]any{"consumer": id, "what": what})
				} else if !c11Descriptive[p] {
					w.Violation("C11", fmt.Sprintf("unexpected-state-after-removal:prefix%d", p), map[string]any{"consumer": id})
				} else if p == 54 || p == 55 {
					residue = append(residue, fmt.Sprint(p))
				}
			}
			if len(residue) > 0 {
				w.Event("C11", "informational-residue-after-removal")
			}
			if si.channel != "" {
				if ch, found := w.P.PApp.IBCKeeper.ChannelKeeper.GetChannel(ctx, ccv.ProviderPortID, si.channel); found && ch.State != channeltypes.CLOSED {
					// IBC core refuses to close a channel whose light client is expired or frozen; such a channel is dead anyway
					if st := clientStatus(w.P, si.client); si.client != "" && st != "Active" {
						w.Event("C11", "channel-left-open-at-removal-because-client-is-"+st)
					} else {
						w.Violation("C11", "channel-not-closed-after-removal", map[string]any{"consumer": id, "channel": si.channel, "state": ch.State.String(), "client": si.client})
					}
				}
			}
			w.Sample("C11", map[string]any{"consumer": id, "cause": si.cause, "stopped": si.stopTime.String(), "removed": now.String(), "kept_keys": len(left)})
		}
	}
	// due but not removed (bounded progress: at most 200 removals per block)
	for id, si := range m.stopped {
		if si.deleted {
			continue
		}
		if !now.Before(si.deadline) && m.removedThisBlock < 200 {
			ph := pk.GetConsumerPhase(ctx, id)
			if ph == phStopped {
				w.Violation("C11", "not-removed-when-due", map[string]any{"consumer": id, "deadline": si.deadline.String(), "time": now.String()})
				si.deadline = now.Add(1000 * time.Hour) // report once
			}
		}
	}
}

func (m *monC11) PreEnd(ctx sdk.Context) {
	if len(m.stopped) > 0 || true {
		m.preEnd = m.snap(ctx)
	}
}

func (m *monC11) PostEnd(ctx sdk.Context) {
	w := m.w
	pk := w.P.PApp.ProviderKeeper
	now := ctx.BlockTime()
	post := m.snap(ctx)
	for _, id := range pk.GetAllConsumerIds(ctx) {
		ph := pk.GetConsumerPhase(ctx, id)
		prev := m.phasePrev[id]
		m.phasePrev[id] = ph
		if ph != phStopped {
			continue
		}
		si := m.stopped[id]
		if si == nil {
			// first stop: observed at the end of the block in which it happened
			si = &stopInfo{stopTime: now, deadline: now.Add(m.unbonding), cause: "unknown"}
			// was it already stopped before EndBlock (transactions) or did EndBlock stop it (send failure)?
			if m.preEnd != nil {
				if string(m.preEnd[string(providertypes.ConsumerIdToPhaseKey(id))]) == string(post[string(providertypes.ConsumerIdToPhaseKey(id))]) {
					si.cause = "tx"
				} else {
					si.cause = "send-failure"
				}
			}
			si.channel, _ = pk.GetConsumerIdToChannelId(ctx, id)
			si.client, _ = pk.GetConsumerClientId(ctx, id)
			m.stopped[id] = si
			_ = prev
			w.Event("C11", "stops")
			unbEnd, _ := w.P.PApp.StakingKeeper.UnbondingTime(ctx)
			rt, err := pk.GetConsumerRemovalTime(ctx, id)
			switch {
			case err != nil:
				w.Violation("C11", "removal-time-not-stop-plus-unbonding", map[string]any{"consumer": id, "error": err.Error()})
				si.minUnb = m.unbonding
			case rt.Equal(now.Add(m.unbonding)):
				si.minUnb = m.unbonding
			case rt.Equal(now.Add(unbEnd)) && si.cause == "send-failure":
				// stopped by EndBlock after governance changed the unbonding period in this very block
				si.minUnb, si.deadline = unbEnd, rt
			default:
				w.Violation("C11", "removal-time-not-stop-plus-unbonding", map[string]any{"consumer": id, "removal_time": rt.String(), "stop": now.String(), "unbonding": m.unbonding.String()})
				si.minUnb = m.unbonding
			}
			si.lastRT = rt
			si.atStop = map[string]string{}
			for k, v := range consumerKeys(post, id) {
				if c11Retained[k[0]] {
					si.atStop[k] = string(v)
				}
			}
		}
		// a repeated stop (a further packet of the stopped consumer times out) re-schedules: the stored removal time moves to
		// this block's time plus the unbonding period now in force, and the earlier schedule entry stays
		if rt, err := pk.GetConsumerRemovalTime(ctx, id); err == nil && !rt.Equal(si.lastRT) && !si.stopTime.Equal(now) {
			unbEnd, _ := w.P.PApp.StakingKeeper.UnbondingTime(ctx)
			w.Eval("C11")
			w.Event("C11", "removal-rescheduled-by-repeated-stop")
			switch {
			case rt.Equal(now.Add(m.unbonding)):
				if m.unbonding < si.minUnb {
					si.minUnb = m.unbonding
				}
			case rt.Equal(now.Add(unbEnd)):
				if unbEnd < si.minUnb {
					si.minUnb = unbEnd
				}
			default:
				w.Violation("C11", "rescheduled-removal-time-not-block-time-plus-unbonding", map[string]any{"consumer": id, "removal_time": rt.String(), "time": now.String(), "unbonding": m.unbonding.String()})
			}
			if rt.Before(si.deadline) {
				si.deadline = rt
			}
			si.lastRT = rt
		}
		// (1) no validator updates are computed or sent for a stopped consumer
		w.Eval("C11")
		w.Event("C11", "stopped-consumer-blocks")
		if si.cause != "send-failure" || !si.stopTime.Equal(now) {
			for k, v := range consumerKeys(post, id) {
				if k[0] == 17 || k[0] == 31 {
					if string(m.preEnd[k]) != string(v) {
						w.Violation("C11", fmt.Sprintf("update-computed-for-stopped-consumer:prefix%d", k[0]), map[string]any{"consumer": id, "height": ctx.BlockHeight()})
					}
				}
			}
		}
		// (2) protocol state is retained until the removal time
		if now.Before(si.deadline) {
			cur := consumerKeys(post, id)
			for k, v := range si.atStop {
				nv, ok := cur[k]
				if !ok {
					w.Violation("C11", fmt.Sprintf("state-lost-before-removal-time:prefix%d", k[0]), map[string]any{"consumer": id, "time": now.String(), "deadline": si.deadline.String()})
					delete(si.atStop, k)
				} else if string(nv) != v && k[0] != 17 {
					w.Violation("C11", fmt.Sprintf("state-changed-after-stop:prefix%d", k[0]), map[string]any{"consumer": id})
					si.atStop[k] = string(nv)
				}
			}
		}
	}
}

func (m *monC11) AfterBlock(c *Chain, req *abci.RequestFinalizeBlock, res *abci.ResponseFinalizeBlock, txs []TxOutcome) {
	if !c.IsProvider {
		return
	}
	w := m.w
	pk := w.P.PApp.ProviderKeeper
	ctx := c.Ctx()
	// causes of stops, from the transactions of this block
	for _, o := range txs {
		if !o.OK() {
			continue
		}
		for _, msg := range o.Spec.Msgs {
			var id, cause string
			switch t := msg.(type) {
			case *providertypes.MsgRemoveConsumer:
				id, cause = t.ConsumerId, "owner"
			case *channeltypes.MsgTimeout:
				if t.Packet.SourcePort == ccv.ProviderPortID {
					id, cause = m.byChannel(t.Packet.SourceChannel), "timeout"
				}
			case *channeltypes.MsgAcknowledgement:
				if t.Packet.SourcePort == ccv.ProviderPortID {
					if _, isErr, ok := decodeAck(t.Acknowledgement); ok && isErr {
						id, cause = m.byChannel(t.Packet.SourceChannel), "error-ack"
					}
				}
			}
			if id == "" {
				continue
			}
			if si := m.stopped[id]; si != nil {
				if si.stopTime.Equal(req.Time) && si.stops == 0 {
					si.cause = cause
				}
				si.stops++
				w.Case("C11", fmt.Sprintf("stop cause=%s repeated=%v", cause, si.stops > 1))
				w.Event("C11", "stop-cause:"+cause)
			}
		}
	}
	// the provider must not even attempt to send on the channel of a consumer stopped before this block (a failing attempt
	// emits no event, but stops the consumer again and moves its removal)
	for _, cl := range w.Calls.Calls {
		if cl.Method != "channel.SendPacket" || !cl.InBlock || !strings.HasPrefix(cl.Args, ccv.ProviderPortID+"/") {
			continue
		}
		id := m.byChannel(strings.TrimPrefix(cl.Args, ccv.ProviderPortID+"/"))
		if si := m.stopped[id]; si != nil && !si.stopTime.Equal(req.Time) {
			w.Violation("C11", "send-attempted-to-stopped-consumer", map[string]any{"consumer": id, "height": req.Height, "error": cl.Err})
		}
	}
	// no packets may be sent to a consumer that was stopped before this block's EndBlock
	for _, p := range parseSent(res.Events) {
		if p.SourcePort != ccv.ProviderPortID {
			continue
		}
		id := m.byChannel(p.SourceChannel)
		if si := m.stopped[id]; si != nil && (si.cause != "send-failure" || !si.stopTime.Equal(req.Time)) {
			w.Violation("C11", "packet-sent-to-stopped-consumer", map[string]any{"consumer": id, "height": req.Height})
		}
	}
	_ = pk
	_ = ctx
	_ = sort.Strings
}

func (m *monC11) byChannel(ch string) string {
	for id, si := range m.stopped {
		if si.channel == ch && ch != "" {
			return id
		}
	}
	if id, ok := m.w.P.PApp.ProviderKeeper.GetChannelIdToConsumerId(m.w.P.Ctx(), ch); ok {
		return id
	}
	for id, l := range m.w.Relay.Links {
		if l.ProvChan == ch {
			return id
		}
	}
	return ""
}
