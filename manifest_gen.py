#!/usr/bin/env python3
"""Regenerates MANIFEST.json from the table below (claimed checks) - properties not listed go to not_applicable."""
import json, os
ROOT = os.path.dirname(os.path.abspath(__file__))
props = [json.loads(l) for l in open(os.path.join(ROOT, "properties.jsonl"))]

NOTE = ("Trusted base: Cosmos SDK / CometBFT types / ibc-go as given; the harness' block producer, relayer, header signing and "
        "reference oracles. A clean run means 'held on the executions produced (see evidence)', not a proof.")

CLAIMS = {}
def claim(pid, text, technique, design_ref, category="exploration", note=NOTE):
    CLAIMS[pid] = dict(text=text, technique=technique, design_ref=design_ref, category=category, note=note)

exec(open(os.path.join(ROOT, "claims.py")).read())

NOT_APPLICABLE = {}
if os.path.exists(os.path.join(ROOT, "not_applicable.json")):
    NOT_APPLICABLE = json.load(open(os.path.join(ROOT, "not_applicable.json")))

checks = []
na = []
for p in props:
    pid = p["id"]
    if pid in CLAIMS:
        c = CLAIMS[pid]
        checks.append({
            "property_id": pid,
            "quick_cmd": "./check %s quick" % pid,
            "thorough_cmd": "./check %s thorough" % pid,
            "evidence_file": "evidence/%s.json" % pid,
            "replay_cmd_template": "./check replay {path}",
            "engine": "world-simulator",
            "level_claimed": {"category": c["category"], "text": c["text"], "design_ref": c["design_ref"]},
            "level_note": c["note"],
            "technique": c["technique"],
        })
    else:
        na.append({"property_id": pid, "reason": NOT_APPLICABLE.get(pid, "check not built yet in this round (framework under construction); see DESIGN.md section 2")})

m = {
    "version": 1,
    "setup_cmd": "./setup.sh",
    "hooks": {
        "guard": "verif",
        "enable": "no source hooks are needed: probes wrap the applications' Begin/EndBlocker and keeper dependencies from outside /repo (DESIGN.md 0.1); the build tag 'verif' is reserved",
        "baseline_off_cmd": "cd /repo && GOFLAGS=-mod=mod go test -vet=off -count=1 -timeout 25m ./...",
        "source_commits": [],
        "add_only": True,
    },
    "engines": [{"name": "world-simulator", "path": "harness/sim", "serves_properties": sorted(CLAIMS),
                 "kind_free_text": "runs the real provider/consumer apps under generated hostile workloads with online monitors, reference models and offline log checkers"}],
    "checks": checks,
    "notes": "Runtime monitoring only. Every check rebuilds the harness test binary against /repo's working tree (go test -c) before running.",
    "not_applicable": na,
}
json.dump(m, open(os.path.join(ROOT, "MANIFEST.json"), "w"), indent=1)
print("claimed:", sorted(CLAIMS), "not claimed:", [x["property_id"] for x in na])
