#!/bin/bash
# usage: seed3.sh confirm <Cxx>            copies the round-3 seed out of the agent's worktree /tmp/w3-<Cxx>, re-confirms it, removes that worktree
#        seed3.sh eval <Cxx> [props...]     runs the quick checks of the given properties (default: its own) against the seed
mode=$1; p=$2; shift; shift
id=$p-3
mkdir -p /verif/seeded/_logs
if [ "$mode" = confirm ]; then
  /verif/confirm_seed.sh $id /tmp/w3-$p > /verif/seeded/_logs/$id.confirm.log 2>&1
  grep -q "^RESULT" /verif/seeded/_logs/$id.confirm.log && git -C /repo worktree remove --force /tmp/w3-$p
  tail -1 /verif/seeded/_logs/$id.confirm.log
else
  props=${@:-$p}
  /verif/seedeval.sh r3$p /verif/seeded/$id/patch.diff $props >> /verif/seeded/_logs/$id.eval.log 2>&1
  grep -E "quick:|signature|rc=" /verif/seeded/_logs/$id.eval.log | tail -20
fi
