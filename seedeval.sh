#!/bin/bash
# usage: seedeval.sh <name> <patch.diff> <property>...  - applies the patch to a fresh scratch worktree and runs the quick checks against it
name=$1; patch=$2; shift; shift
d=/tmp/mine/$name
git -C /repo worktree remove --force $d >/dev/null 2>&1; rm -rf $d
git -C /repo worktree add --detach $d HEAD >/dev/null 2>&1 || exit 2
git -C $d apply $patch || { echo "patch does not apply"; exit 2; }
(cd $d && GOFLAGS=-mod=mod GOPROXY=off go build ./x/... ./app/... ) || { echo "does not build"; exit 2; }
echo "##### $name $(date +%T)"
"$(dirname "$(readlink -f "$0")")"/seedtest.sh $d "$@"
git -C /repo worktree remove --force $d >/dev/null 2>&1
rm -f "$(dirname "$(readlink -f "$0")")"/bin/sim.$(python3 -c "import hashlib;print(hashlib.sha1('$d'.encode()).hexdigest()[:8])").test
