#!/usr/bin/env python3
"""Writes /verif/seeded/<ID>/meta.json from the agent's meta, my confirmation log and my check runs (out/seed_summary.txt).
usage: seedmeta.py            (all seeds that have a confirmation log)"""
import json, os, re, glob

V = '/verif'
summary = open(f'{V}/out/seed_summary.txt').read().split('#####')
runs = {}  # seed -> {prop: (line, [signatures])} (last evaluation wins)
first_runs = {}  # seed -> {prop: violations in the FIRST evaluation}
for blk in summary:
    lines = [l for l in blk.strip().splitlines() if l.strip()]
    if not lines:
        continue
    m = re.match(r'\s*(s|r2)(C\d\d)', lines[0])
    if not m:
        continue
    sid = m.group(2) + ('-2' if m.group(1) == 'r2' else '')
    cur = None
    for l in lines[1:]:
        mm = re.match(r'(C\d\d) quick: (.*)', l)
        if mm:
            cur = mm.group(1)
            first_runs.setdefault(sid, {}).setdefault(cur, int(re.search(r'violations=(\d+)', mm.group(2)).group(1)))
            runs.setdefault(sid, {})[cur] = {'result': mm.group(2).strip(), 'signatures': []}
        elif 'signature:' in l and cur:
            runs[sid][cur]['signatures'].append(l.split('signature:')[1].strip())

for log in sorted(glob.glob(f'{V}/out/confirm/C*.log')):
    sid = os.path.basename(log)[:-4]
    d = f'{V}/seeded/{sid}'
    if not os.path.exists(f'{d}/meta.agent.json'):
        continue
    ag = json.load(open(f'{d}/meta.agent.json'))
    txt = open(log).read()
    res = re.search(r'RESULT \S+ demo_without_rc=(\d+) demo_with_rc=(\d+) unit_rc=(\d+)', txt)
    if not res:
        print(sid, 'no RESULT line'); continue
    r0, r1, r2 = map(int, res.groups())
    first = first_runs.get(sid, {})
    caught, missed = {}, []
    for p, r in sorted(runs.get(sid, {}).items()):
        v = int(re.search(r'violations=(\d+)', r['result']).group(1))
        if v > 0:
            caught[p] = r['signatures']
        else:
            missed.append(p)
    meta = {
        'property': ag.get('property', sid[:3]),
        'summary': ag.get('summary'),
        'needs_to_manifest': ag.get('needs_to_manifest'),
        'files_touched': ag.get('files_touched'),
        'origin': 'written by a fresh sub-agent that saw only the property text and a scratch worktree of /repo (nothing from /verif)',
        'demo_cmd': ag.get('demo_cmd'),
        'demo_files': sorted(os.path.relpath(os.path.join(dp, f), f'{d}/demo') for dp, _, fs in os.walk(f'{d}/demo') for f in fs),
        'confirmed_by_me': {
            'how': 'confirm_seed.sh: fresh scratch worktree of /repo HEAD under /tmp/mine; demo copied in; demo run without the change, patch applied, '
                   'demo run with the change, demo removed, go build ./... and the whole existing suite (go test -vet=off -count=1 ./...) with the change; worktree removed',
            'demo_without_change_exit': r0, 'demo_with_change_exit': r1, 'existing_suite_with_change_exit': r2,
            'confirmed': r0 == 0 and r1 != 0 and r2 == 0,
        },
        'checks_run_against_it': {
            'how': 'seedeval.sh: patch applied to a scratch worktree, VERIF_REPO=<worktree> ./check <ID> quick (own binary / module file / output dir), worktree removed',
            'caught_by': caught, 'not_caught_by': missed,
            'missed_in_first_evaluation_then_check_strengthened': sorted(p for p in caught if first.get(p, 1) == 0),
        },
    }
    extra = f'{d}/notes.json'
    if os.path.exists(extra):
        meta['notes'] = json.load(open(extra))
    json.dump(meta, open(f'{d}/meta.json', 'w'), indent=1)
    print(sid, 'confirmed' if meta['confirmed_by_me']['confirmed'] else 'NOT CONFIRMED', 'caught by', list(caught), 'missed by', missed)
