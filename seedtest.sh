#!/bin/bash
# usage: seedtest.sh <scratch-repo-dir-with-the-change-applied> <property>...   (runs the quick checks against that tree; evidence goes to out/alt-*)
d=$1; shift
cd "$(dirname "$0")"
for p in "$@"; do
  VERIF_REPO=$d ./check $p quick 2>&1 | grep -v "^  details" | cut -c1-400 | head -12
  echo "   -> $p rc=${PIPESTATUS[0]}"
done
