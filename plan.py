# Per-property plans (exec'd by ./check). worlds = (profile, n_quick, n_thorough)

plan("C02", [("valset", 10, 80), ("lifecycle", 2, 20)],
     minobs={"set-evaluations:epoch": 40, "set-evaluations:launch": 5, "evaluations-with-tie-at-active-boundary": 5},
     rule="one evaluation = the stored consumer validator set of one launched consumer right after an epoch EndBlock (or its launch) "
          "compared with an eligibility computation written from the statement; distinct = (launch/epoch, Top-N?, inactive allowed?, "
          "which filters are non-empty, set cap?, power cap?, tie at the provider active-set boundary?)")

plan("C03", [("valset", 12, 80)],
     minobs={"threshold-evaluations": 30, "optout-attempt-topn:below": 1, "optout-attempt-topn:at-or-above": 3, "topn-changes-judged": 8},
     rule="threshold evaluations compare the stored minimum power with the exact integer threshold over the recorded provider consensus set; "
          "in the block of a Top-N change (governance proposal) the stored threshold must already be the one for the new value over the set recorded at the start of that block, "
          "or be gone when the consumer stops being Top-N; opt-out attempts are judged against the threshold stored at the start of the block; distinct = (N, #ties at m, size, launch/epoch) "
          "and (side of m, N, power==m)")

plan("C15", [("valset", 8, 60), ("slash", 2, 20)],
     minobs={"blocks-with-updates": 50},
     rule="every provider block: recorded consensus set vs tie-tolerant top-M predicate over staking state, engine-side fold of returned "
          "updates vs recorded set, exact-diff check of updates, staking views vs recorded set; distinct = (M vs #bonded, tie at boundary) "
          "and (kind of update, M vs #bonded)")

plan("C10", [("lifecycle", 8, 60), ("valset", 2, 10)], tests=["TestBulk200"],
     minobs={"launch-ok": 5, "launch-failed": 5, "transition:CONSUMER_PHASE_STOPPED->CONSUMER_PHASE_DELETED": 1, "blocks-with-more-than-200-due": 1},
     rule="every provider block, after BeginBlock and after EndBlock: phase-graph reachability per consumer id, initialized<=>spawn time, "
          "spawn-queue content vs phases, launch rule against the queue of the previous block, launch artefacts; "
          "distinct = (segment, transition) and due-bucket sizes")

plan("C04", [("valset", 8, 60)], tests=["TestC04Vectors"],
     minobs={"power-cap-vectors": 10000, "set-cap-vectors": 3000, "capped-set-evaluations": 20, "power-capped-set-evaluations": 20},
     rule="(a) generated validator multisets (sizes 1-200; shapes: ones, small, ties, geometric, one whale, near 2^53, near MaxTotalVotingPower/n; "
          "p in 1..100; k in 0..n+1; priority lists inside/outside the set) through the exported functions of the real keeper, judged by "
          "arbitrary-precision closed-form predicates; (b) the same predicates on every stored consumer set with a cap in the valset worlds; "
          "distinct = (size bucket, p bucket, shape, achievable?) and (size bucket, k vs n, #priority)")

plan("C01", [("valset", 10, 70), ("slash", 2, 10)],
     minobs={"consumer-blocks-with-packets": 30, "consumer-blocks-with-batch>=3": 3, "provider-set-changes": 50},
     rule="every block of every live consumer: stored cross-chain validators and the engine-side fold of returned updates are compared with the set "
          "the provider stored for the last VSC packet received (launch set if none); packets seen on the wire/pending queue folded from the launch "
          "set must reproduce the provider's sets; a packet exists iff the set changed; distinct = (batch size bucket, lag bucket)")

plan("C12", [("valset", 6, 40), ("slash", 8, 60)],
     minobs={"epochs": 200, "consumer-height-mappings": 500, "slash-requests-observed": 5, "slash-packets-resolved": 3},
     rule="two logical clocks kept by the monitor (id produced at provider height; latest id received before consumer height) compared with the "
          "provider's id->height map, the consumer's height->id map, the id carried by each downtime slash request (infraction height = block-2) and "
          "the infraction height the provider resolves; ids beyond the current one must get an error ack; distinct = resolution class, request id bucket")

plan("C08", [("slash", 12, 90)],
     minobs={"slash-packets-judged": 40, "row:jail": 10, "row:not-in-set": 5, "consumer-downtime-requests": 10, "vsc-packets-carrying-acks": 10},
     rule="every slash packet received by the provider is judged by a decision table written from the statement over the state probed after BeginBlock "
          "(sequential in-block model for several packets), incl. ack bytes, jail/slash calls at the module boundary, state of all other validators, "
          "owed slash acks vs acks carried by the next VSC packet; consumer side: outstanding-downtime flags vs a request/ack shadow; "
          "distinct = decision-table row x validator status, hostile packet shapes")

plan("C09", [("slash", 12, 90)],
     minobs={"replenishments": 30, "admitted-packets": 10, "consumer-slash-sends": 20, "windows-checked": 500},
     rule="meter after every BeginBlock vs allowance recomputed from parameters, replenish timing/size, per-packet admit/bounce vs meter sign, meter delta vs "
          "jailed power, O(n^2) window bound over the meter log at the end of each world; consumer automaton Idle/Waiting/Backoff over observed sends and acks, "
          "queued = handled + pending; distinct = automaton transitions, replenish/clamp classes")

plan("C13", [("lifecycle", 10, 70), ("valset", 2, 10), ("slash", 2, 10), ("keys", 4, 20), ("rewards", 4, 20)],
     minobs={"single-consumer-blocks": 100, "beginblocks-with-lifecycle-events": 50, "index-entries-pruned-with-their-consumers-own-prune-entry": 10, "reward-credits-consumed-judged-against-own-denoms": 20},
     rule="full snapshots of the provider store after BeginBlock, before EndBlock and after EndBlock of every block; every changed key is attributed to a "
          "consumer id by a decoder of the key layout (validated against the repository's prefix table); keys of consumers the block's transactions / due "
          "lifecycle events do not concern must be untouched, time-queue contents may only move concerned ids; EndBlock pruning removes a key-index entry only together "
          "with a due prune entry of the same consumer listing that address (or with the removal of its validator from staking); "
          "a consumer's reward credit is consumed in BeginBlock only in denoms registered globally or allow-listed by that consumer itself (rewards worlds: users credit a consumer "
          "in a denom only another consumer allows); "
          "distinct = (op kinds, phase of the consumer, whether a prefix-related id such as 1/10 exists)")

plan("C14", [("lifecycle", 6, 40), ("valset", 2, 10)], tests=["TestC14Matrix"],
     minobs={"matrix-cells": 90, "rejections-checked-for-no-effect": 60, "topn-consumer-observed": 50},
     rule="directed matrix: message type x sender role (owner, previous owner, stranger, forged signer field, operator, other operator, governance) x phase, "
          "each as a real signed transaction alone in its block, judged by an authorization table from the statement; rejected => empty transaction-level diff "
          "of the provider store; accepted validator messages may only touch keys of the signer's validator; ownership never changes in a cell that is not a transfer; "
          "plus the standing invariant (Top-N => owned by governance and within 50..100) after Begin/EndBlock of every block of every world; distinct = matrix cell")

plan("C05", [("keys", 10, 70), ("valset", 2, 12), ("slash", 2, 10)],
     minobs={"assignment-attempts": 300, "assignments-rejected": 80, "assignments-accepted": 80, "validator-creations": 8},
     rule="every operator-signed key assignment / opt-in-with-key / validator creation is predicted (accept/reject) by a shadow registry written from the "
          "documented rules (sequential model inside a block) and the registry is compared entry by entry with the provider's index, forward map and provider "
          "keys after every block (injectivity); small key pool so collisions are frequent; distinct = (relation of the key to existing ones, phase)")

plan("C06", [("keys", 10, 70), ("slash", 4, 30), ("valset", 2, 12)],
     minobs={"keys-replaced-on-launched-consumer": 15, "resolutions-before-deadline": 200, "replaced-keys-pruned": 10},
     rule="shadow table (consumer, key) -> (validator, replaced at, deadline = replaced + unbonding in force) checked against the provider's index after every "
          "block: retained while block time < deadline, gone in the first block whose time >= deadline, provider keys resolve to themselves unless re-assigned; "
          "time steps aim at deadlines (exactly, 1ns before, 1ns after); punishments through replaced keys are judged by the C08 monitor in the slash worlds; "
          "distinct = offset class to the deadline (retained / pruned)")

plan("C20", [("lifecycle", 8, 60), ("slash", 6, 40)], tests=["TestBulk200"],
     minobs={"blocks-with-more-than-200-due": 1, "changes-applied": 200, "requests:queued": 20, "requests:replaces-pending": 5, "requests:prelaunch-immediate": 10, "downtime-punishments-compared": 5},
     rule="shadow (current, pending, due) per consumer stepped by accepted requests (partial requests merged, equal-to-current cancels, later replaces) and by "
          "block time (<=200 per block, schedule order); compared with parameters in force, queued record and raw schedule after every block; punishments "
          "(jail duration, slash fraction at the staking boundary) compared with the parameters in force; distinct = request kind x partial, apply offset class")

plan("C18", [], tests=["TestC18Replicas"],
     minobs={"replica-blocks-compared": 2000, "interesting-blocks": 100, "replica-runs": 6},
     rule="worlds of several profiles are recorded (RequestInitChain and every RequestFinalizeBlock byte-exactly, per chain) and re-executed on fresh application "
          "instances without probes: one replica in the same process, further replicas in separate processes (and, in the thorough tier, for the first world of every profile, 3 concurrent "
          "replicas of the first 200 blocks of every chain with concurrent queries in a -race process); SHA-256 digests of every response (whole, app hash, validator "
          "updates, tx results without the free-text Log/Info fields, events) "
          "are compared block by block; race reports are judged only when the racing access itself is in x/ccv code; distinct = (profile, chain kind, chain)")

plan("C19", [("lifecycle", 4, 30), ("valset", 3, 20), ("slash", 3, 20), ("keys", 2, 10)], tests=["TestC19Faults"], level="fault_enumeration",
     minobs={"injected-executions": 50, "blocks-enumerated-exhaustively": 8, "call-sites:launch": 20, "call-sites:rewards": 20, "call-sites:delete": 4, "call-sites:send": 4},
     rule="fault-free half: FinalizeBlock of every chain of every generated world must not return an error or panic (recovered and recorded by the driver). "
          "Fault half: for each scenario block in which several consumers are launched / deleted / paid rewards / sent packets, the fault-free execution yields the "
          "ordered list of boundary calls (client, connection, staking, slashing, bank, distribution, channel keepers; attributed to the per-consumer operation by "
          "inspecting the call stack); the scenario is re-executed once per call site with an error injected at exactly that call (all call sites of the block = exhaustive "
          "for that block); oracle: block does not fail, at most one consumer's result differs from the fault-free run, that consumer's keys equal its pre-block keys up to "
          "the documented fallback (rewards: every consumer is credited in two shared denoms, the unit that may fail is one (consumer, denom) payout), every other consumer "
          "equals the fault-free result; two token-conservation measures (rewards pool minus all credits; distribution module balance minus outstanding rewards and "
          "community pool) are unchanged by the block under test in every run; distinct = (scenario, call, position of the affected consumer)")

plan("C11", [("lifecycle", 10, 70), ("slash", 6, 40)], tests=["TestBulk200"],
     minobs={"stops": 20, "removals": 200, "stopped-consumer-blocks": 300, "stop-cause:owner": 5, "stop-cause:timeout": 2},
     rule="for every consumer observed in phase stopped: removal time = stop time + unbonding in force; in every block while stopped no validator set or queued "
          "packet of it changes in EndBlock and nothing is sent on its channel; the retained protocol state (client/channel binding, genesis, validator set, opt-ins, "
          "lists, commission rates, queued packets, ...) is compared key by key with its value at the stop until the removal time; removal not before the deadline and "
          "in the first block at/after it; after removal every protocol-state prefix is gone, the channel is CLOSED and only descriptive records remain; "
          "no send attempt (boundary call into the channel keeper, successful or not) on the channel of a consumer stopped in an earlier block; "
          "stops by owner (also while the CCV handshake is still outstanding and completes afterwards), by timed-out packets (starved relayer, several in flight), by an error "
          "acknowledgement forged by a malicious consumer, and by send failure after the consumer closed its channel end; "
          "distinct = (cause, repeated stops, removal offset class)")

plan("C17", [("valset", 6, 40), ("lifecycle", 4, 30)], tests=["TestC17Handshake"],
     minobs={"handshake-attempts": 12, "handshake-attempts-rejected": 12, "honest-handshake-completed": 6, "bindings-checked": 500, "interleaved-handshake-groups": 1},
     rule="directed handshake matrix against real provider and consumer apps: channel ends with a single deviation (unordered, counterparty port, version, hops, unbound "
          "client, provider-initiated, combined) are committed on a malicious consumer and presented to the provider with genuine proofs; honest handshakes must complete; "
          "repetition after success must fail; 2-3 concurrent handshakes for one consumer delivered in lock step (INITs, TRYs, ACKs, CONFIRMs): exactly one completes and the "
          "consumer adopts that one; consumer-side deviations and a channel over a foreign client must be refused by the consumer; a second consumer naming the "
          "connection of a launched one; plus, after every provider block of every world, the four binding maps read from the raw store must be mutual inverses and every "
          "CCV channel must sit on its consumer's client, with at most one OPEN provider-port channel per consumer; the consumer-side changeover (PreCCV) half is not covered; "
          "distinct = attempt kind, standing map sizes")

plan("C07", [], tests=["TestC07Evidence"],
     minobs={"evidence-submissions": 60, "invalid-evidence-cases": 50, "punishments": 10, "punishments-with-unbonding-or-redelegating-stake": 3},
     rule="evidence objects are built from real headers of live consumer chains and the harness' keys (ground truth: signer set, validity); every message is a real "
          "signed transaction alone in its block; valid => exactly the signers are slashed/jailed/tombstoned per the consumer's parameters in force, slash power argument "
          "= last power + unmatured undelegations/redelegations recomputed from staking entries, jail-until and tombstone flag, all other validators identical "
          "(destinations of the signer's redelegations may lose tokens); invalid (each mutation operator of the statement, wrong client, other consumer, shared chain id "
          "with another key, amnesia shape, below trust level, replay after tombstone) => tx fails, empty tx-level diff of the provider store, all validators identical; "
          "distinct = evidence kind x mutation / key relation")

plan("C16", [("rewards", 12, 90)], tests=["TestC16RewardFaults"],
     minobs={"conservation-checks-under-injected-payout-faults": 40, "fee-splits-checked": 200, "reward-transfers-sent": 100, "reward-transfers-received": 80, "payouts-judged": 300, "payouts-with-ineligible-members": 5, "user-transfers-into-the-rewards-pool": 10,
             "commissions-checked": 100, "credits-in-unregistered-denoms-kept": 20, "cross-chain-conservation-checks": 6},
     rule="consumer: balances of fee collector / redistribution / to-provider accounts and the transfer escrow before and after every EndBlock against the split rule "
          "(fraction rounded down), transmission height rule, allowed denoms, all-or-nothing transmission; provider: pool balance and per-consumer credits around every "
          "received transfer; reward allocation of every BeginBlock against a model of the statement (eligibility from an independent membership history, proportional "
          "shares, community tax, per-consumer commission) using the boundary calls into x/distribution, outstanding rewards and commission deltas; standing "
          "'credits <= pool'; end-of-world cross-chain conservation sent = credited + refunded + in flight; fees 0..1e18 in three denoms (one unregistered), two "
          "consumers, joins/leaves/commission changes (rates 0, 1e-18, 1 included) between crediting and payout; transfers into the pool by ordinary consumer-chain users whose reward memo names this, "
          "another or no consumer (credited to the named consumer, never paid out in a denom that consumer does not allow); plus the rewards fault scenario of C19 (several consumers credited in two shared denoms, an error "
          "injected at every boundary call of the payout block in turn): rewards pool minus all credits and distribution balance minus what it owes must not change; distinct = (fraction, magnitude, allowed?) and (eligible bucket, ineligible?, magnitude, custom rate?)")
