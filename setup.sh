#!/bin/bash
# Builds the harness test binary once from /repo's working tree (offline).
set -e
cd "$(dirname "$0")"
exec ./check build
