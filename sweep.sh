#!/bin/bash
# usage: sweep.sh <tier> "<seeds>" [props...]   - runs checks over several seeds and prints a summary line per run
tier=${1:-quick}; seeds=${2:-"0 1 2"}; shift; shift
props=${@:-C01 C02 C03 C04 C05 C06 C07 C08 C09 C10 C11 C12 C13 C14 C15 C16 C17 C18 C19 C20}
cd "$(dirname "$0")"
mkdir -p out/sweep
for s in $seeds; do
  for p in $props; do
    VERIF_SEED=$s ./check $p $tier > out/sweep/$p-$tier-$s.log 2>&1
    rc=$?
    echo "seed=$s $p rc=$rc $(grep -m1 "^$p $tier" out/sweep/$p-$tier-$s.log) $(grep -m1 'VIOLATION\|INCONCLUSIVE' out/sweep/$p-$tier-$s.log | cut -c1-200)"
  done
done
