#!/bin/bash
# usage: confirm_seed.sh <ID> <agent-worktree> : copies the seed into /verif/seeded/<ID>/ and re-confirms it in a fresh scratch worktree:
#   demo fails with the change, passes without it; unit tests of ./x/... ./app/... pass with the change
id=$1; wt=$2
out=/verif/seeded/$id; mkdir -p $out
cp $wt/_seed/patch.diff $out/patch.diff
cp $wt/_seed/meta.json $out/meta.agent.json 2>/dev/null
d=/tmp/mine/confirm-$id
git -C /repo worktree remove --force $d >/dev/null 2>&1; rm -rf $d
git -C /repo worktree add --detach $d HEAD >/dev/null 2>&1 || exit 2
export GOFLAGS=-mod=mod GOPROXY=off
demos=$(cd $wt && find . -name 'zz_demo*' -not -path './_seed/*' -type f)
for f in $demos; do mkdir -p $d/$(dirname $f); cp $wt/$f $d/$f; mkdir -p $out/demo/$(dirname $f); cp $wt/$f $out/demo/$f; done
cmd=$(python3 -c "import json;print(json.load(open('$wt/_seed/meta.json'))['demo_cmd'])")
cmd=$(echo "$cmd" | sed "s#$wt#$d#g")
cd $d
echo "== demo WITHOUT the change"; (eval "timeout 3000 $cmd" 2>&1 | tail -4); r0=${PIPESTATUS[0]}
git apply $out/patch.diff || { echo "PATCH DOES NOT APPLY"; exit 2; }
echo "== demo WITH the change"; (eval "timeout 3000 $cmd" 2>&1 | tail -6); r1=${PIPESTATUS[0]}
for f in $demos; do rm -f $d/$f; done
echo "== unit tests WITH the change"; go build ./... && go test -vet=off -count=1 -timeout 60m ./x/... ./app/... 2>&1 | grep -v "^ok\|no test files" | tail -5; r2=${PIPESTATUS[0]}
echo "RESULT $id demo_without_rc=$r0 demo_with_rc=$r1 unit_rc=$r2"
cd /; git -C /repo worktree remove --force $d >/dev/null 2>&1
