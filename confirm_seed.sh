#!/bin/bash
# usage: confirm_seed.sh <ID> [<agent-worktree>] : copies the seed into /verif/seeded/<ID>/ (when an agent worktree is given) and
# re-confirms it in a fresh scratch worktree:
#   demo fails with the change, passes without it; with the change everything builds and every test of the pinned suite
#   (/root/.vp/BASELINE.json stable_pass, 505 tests, go test ./...) still passes
id=$1; wt=$2
out=/verif/seeded/$id; mkdir -p $out /verif/out/confirm
if [ -n "$wt" ] && [ -d $wt/_seed ]; then
  cp $wt/_seed/patch.diff $out/patch.diff
  cp $wt/_seed/meta.json $out/meta.agent.json
  echo $wt > $out/agent_worktree.txt
  for f in $(cd $wt && find . -name 'zz_demo*' -not -path './_seed/*' -type f); do mkdir -p $out/demo/$(dirname $f); cp $wt/$f $out/demo/$f; done
fi
d=/tmp/mine/confirm-$id
git -C /repo worktree remove --force $d >/dev/null 2>&1
git -C /repo worktree add --detach $d HEAD >/dev/null 2>&1 || exit 2
export GOFLAGS=-mod=mod GOPROXY=off
demos=$(cd $out/demo && find . -type f)
for f in $demos; do mkdir -p $d/$(dirname $f); cp $out/demo/$f $d/$f; done
cmd=$(python3 -c "import json;print(json.load(open('$out/meta.agent.json'))['demo_cmd'])")
awt=$(cat $out/agent_worktree.txt 2>/dev/null || echo /tmp/wt-$id)
cmd=$(echo "$cmd" | sed "s#$awt#$d#g")
cd $d
log=/verif/out/confirm/$id
echo "== demo WITHOUT the change: $cmd"; timeout 3000 bash -c "$cmd" > $log.demo0 2>&1; r0=$?; tail -3 $log.demo0
git apply $out/patch.diff || { echo "PATCH DOES NOT APPLY"; exit 2; }
echo "== demo WITH the change"; timeout 3000 bash -c "$cmd" > $log.demo1 2>&1; r1=$?; grep -m6 -E "_test.go:[0-9]+:|--- FAIL|^FAIL|panic:" $log.demo1 | cut -c1-300
for f in $demos; do rm -f $d/$f; done
echo "== pinned suite WITH the change (go test ./... ; judged per test against BASELINE stable_pass)"
go build ./... || { echo "BUILD FAILS"; exit 2; }
go test -json -vet=off -count=1 -timeout 90m ./... > $log.suite.json 2>$log.suite.err
python3 - $log.suite.json <<'P'
import json,sys
b=json.load(open('/root/.vp/BASELINE.json'))
passed=set(); failed=set()
for l in open(sys.argv[1]):
    try: e=json.loads(l)
    except Exception: continue
    if e.get('Test') and e.get('Action') in('pass','fail'):
        (passed if e['Action']=='pass' else failed).add(e['Package']+'::'+e['Test'])
missing=[t for t in b['stable_pass'] if t not in passed]
print('stable tests: %d, passed with the change: %d, missing/failed: %d'%(len(b['stable_pass']),len(b['stable_pass'])-len(missing),len(missing)))
for t in missing[:10]: print('  NOT PASSED', t, '(failed)' if t in failed else '(did not finish)')
open(sys.argv[1]+'.rc','w').write('0' if not missing else '1')
P
r2=$(cat $log.suite.json.rc); rm -f $log.suite.json $log.suite.json.rc $log.suite.err
echo "RESULT $id demo_without_rc=$r0 demo_with_rc=$r1 unit_rc=$r2"
cd /; git -C /repo worktree remove --force $d >/dev/null 2>&1
